// a5h: conformance harness binding the TLA+ specification in /verif/spec to the a5 library in /repo.
#![allow(dead_code)]
//   a5h gen <PROP> <tier> <seed> <outdir> [key=value ...]   -> ND-JSON traces + summary.json
mod compact;
mod frame;
mod geo;
mod geom;
mod hilbert;
mod ids;
mod purity;
mod replay;
mod total;
mod util;

use serde_json::Value;
use std::collections::HashMap;

fn main() {
    let args: Vec<String> = std::env::args().collect();
    if args.len() < 2 {
        eprintln!("usage: a5h gen <PROP> <tier> <seed> <outdir> [k=v ...]");
        std::process::exit(2);
    }
    match args[1].as_str() {
        "gen" => {
            let prop = args[2].as_str();
            let tier = args[3].as_str();
            let seed: u64 = args[4].parse().expect("seed");
            let out = args[5].as_str();
            let kv: HashMap<String, String> = args[6..].iter().filter_map(|a| a.split_once('=').map(|(k, v)| (k.to_string(), v.to_string()))).collect();
            util::quiet_panics();
            std::fs::create_dir_all(out).unwrap();
            util::set_out_dir(out);
            let mc = kv.get("mc").map(|s| s.as_str());
            let summary: Value = match prop {
                "C05" => ids::gen_c05(tier, seed, out, mc),
                "C20" => ids::gen_c20(tier, seed, out),
                "C07" => ids::gen_c07(tier, seed, out),
                "C08" => compact::gen_c08(tier, seed, out, mc),
                "C10" => compact::gen_c10(tier, seed, out, mc),
                "C17" => hilbert::gen_anchors("C17", tier, seed, out),
                "C12" => hilbert::gen_c12(tier, seed, out),
                "C14" => total::gen_c14(tier, seed, out, mc, kv.get("release").map(|s| s.as_str())),
                "C13" => purity::gen_c13(tier, seed, out, mc),
                "C01" => geo::gen_c01(tier, seed, out, mc),
                "C02" => geo::gen_c02(tier, seed, out),
                "C03" => geo::gen_c03(tier, seed, out),
                "C04" => geo::gen_c04(tier, seed, out),
                "C11" => geo::gen_c11(tier, seed, out, mc),
                "C18" => frame::gen_c18(tier, seed, out),
                "C06" => frame::gen_c06(tier, seed, out, kv.get("golden").map(|s| s.as_str()).unwrap_or("/verif/golden")),
                "GOLDEN" => frame::make_golden(out),
                "GOLDEN2" => frame::make_golden_special(out),
                "C09" => ids::gen_c09(tier, seed, out, mc, true),
                _ => {
                    eprintln!("unknown property {}", prop);
                    std::process::exit(2);
                }
            };
            util::write_summary(out, &summary);
        }
        "c13child" => {
            util::quiet_panics();
            purity::child_concurrent(args[2].parse().unwrap(), args[3].parse().unwrap());
        }
        "replay" => {
            util::quiet_panics();
            replay::run(&args[2], &args[3]);
        }
        "call" => {
            util::quiet_panics();
            let spec: Value = serde_json::from_str(&args[2]).expect("call spec");
            total::child_call(&spec);
        }
        _ => {
            eprintln!("unknown command");
            std::process::exit(2);
        }
    }
}
