// Geometry-facing properties: C01/C02 (lookup <-> geometry), C03 (partition), C04 (equal area), C11 (ring).
// All measurements come from the independent oracles in geom.rs, are quantised to integers and logged
// as facts; the TLA+ trace specification judges the relations between them.
use crate::geom::*;
use crate::util::*;
use a5::core::cell::{a5cell_contains_point, get_pentagon, CellToBoundaryOptions};
use a5::core::coordinate_transforms::from_lon_lat;
use a5::core::serialization::{deserialize, serialize};
use a5::core::utils::A5Cell;
use a5::projections::dodecahedron::DodecahedronProjection;
use a5::LonLat;
use serde_json::{json, Value};
use std::collections::HashMap;

pub fn cells_at(r: i32) -> f64 { if r == 0 { 12.0 } else { 60.0 * 4f64.powi(r - 1) } }
pub fn cell_size(r: i32) -> f64 { (4.0 * std::f64::consts::PI / cells_at(r)).sqrt() }

fn ring_ll(id: u64, segments: i32, closed: bool) -> Option<Vec<LonLat>> {
    catch(|| a5::cell_to_boundary(id, Some(CellToBoundaryOptions { closed_ring: closed, segments: Some(segments) }))).ok().and_then(|x| x.ok())
}

/// signed distance (face-plane units ~ radians) of p to the cell's planar pentagon: > 0 inside.
/// Uses the library's own projection and pentagon: fine but NOT independent (oracle (a)).
pub fn planar_margin(cell: &A5Cell, p: LonLat) -> Option<f64> {
    let sp = from_lon_lat(p);
    let proj = DodecahedronProjection::get_thread_local().forward(sp, cell.origin_id).ok()?;
    let pent = get_pentagon(cell).ok()?;
    let vs: Vec<(f64, f64)> = pent.get_vertices_vec().iter().map(|v| (v.x(), v.y())).collect();
    let n = vs.len();
    // orientation from coordinates relative to the first vertex (cells at res 29 are 1e-9 wide at offset ~0.5)
    let o = vs[0];
    let area2: f64 = (0..n).map(|i| { let (a, b) = (vs[i], vs[(i + 1) % n]); (a.0 - o.0) * (b.1 - o.1) - (b.0 - o.0) * (a.1 - o.1) }).sum();
    let sgn = if area2 >= 0.0 { 1.0 } else { -1.0 };
    let q = (proj.x(), proj.y());
    let mut min_signed = f64::INFINITY;
    let mut min_seg = f64::INFINITY;
    for i in 0..n {
        let (a, b) = (vs[i], vs[(i + 1) % n]);
        let (dx, dy) = (b.0 - a.0, b.1 - a.1);
        let len = (dx * dx + dy * dy).sqrt();
        let s = sgn * (dx * (q.1 - a.1) - dy * (q.0 - a.0)) / len;
        min_signed = min_signed.min(s);
        let t = (((q.0 - a.0) * dx + (q.1 - a.1) * dy) / (len * len)).clamp(0.0, 1.0);
        min_seg = min_seg.min(((q.0 - a.0 - t * dx).powi(2) + (q.1 - a.1 - t * dy).powi(2)).sqrt());
    }
    Some(if min_signed >= 0.0 { min_signed } else { -min_seg })
}

/// coarse independent oracle (b): margin of p in the 32-segment ring, with its measured sagitta allowance
pub struct RingOracle { pub ring: Vec<P>, pub allowance: f64 }
pub fn ring_oracle(id: u64) -> Option<RingOracle> {
    let fine = ring_ll(id, 32, false)?;
    let ring: Vec<P> = fine.iter().map(|&l| p_of(l)).collect();
    let n = ring.len();
    // sagitta: distance of every non-corner ring point from the chord of its two neighbours (a chord spanning two
    // segments, i.e. about four times the sagitta of the ring's own segments: a conservative allowance).
    // cell_to_boundary reverses the ring, so original index = n-1-i and corners sit where that is a multiple of 32
    let mut sag: f64 = 0.0;
    for i in 0..n {
        if (n - 1 - i) % 32 == 0 { continue; }
        let (a, m, b) = (ring[(i + n - 1) % n], ring[i], ring[(i + 1) % n]);
        let (ax, ay) = tangent(m, a);
        let (bx, by) = tangent(m, b);
        let len = ((bx - ax).powi(2) + (by - ay).powi(2)).sqrt();
        if len > 0.0 { sag = sag.max((ax * by - ay * bx).abs() / len); }
    }
    Some(RingOracle { ring, allowance: sag + 4e-15 })
}

pub const BAND: f64 = 1e-12;

/// classification of p against cell id: "deep" | "in" | "band" | "out"
pub fn classify(id: u64, cell: &A5Cell, p: LonLat, oracle: &RingOracle) -> (&'static str, f64, f64) {
    let pm = planar_margin(cell, p).unwrap_or(f64::NAN);
    let rm = ring_margin(&oracle.ring, p_of(p));
    let _ = id;
    let out_a = pm < -BAND;
    let out_b = rm < -(oracle.allowance + BAND);
    let deep = pm > 2.0 * BAND && rm > oracle.allowance + 2.0 * BAND;
    let class = if pm.is_nan() { "out" } else if out_a || out_b { "out" } else if deep { "deep" } else if pm > 0.0 && rm > 0.0 { "in" } else { "band" };
    (class, pm, rm)
}

/// the gnomonic chart behind ring_margin only sees the hemisphere around the point: a verdict from the ring alone is
/// taken only when every ring vertex is within 80 degrees of the point
fn ring_in_view(ring: &[P], pt: P) -> bool {
    let u = |q: &P| [q.cosb() * q.lon.cos(), q.cosb() * q.lon.sin(), q.sinb()];
    let a = u(&pt);
    ring.iter().all(|v| { let b = u(v); a[0] * b[0] + a[1] * b[1] + a[2] * b[2] > 0.17365 })
}

fn fmt_ll(p: LonLat) -> Value { json!([format!("{:?}", p.longitude()), format!("{:?}", p.latitude())]) }
fn q15(x: f64) -> i64 { (x * 1e15).clamp(-2e9, 2e9) as i64 }

pub fn lookup_event(p: LonLat, res: i32, kind: &str) -> Value {
    let r = catch(|| a5::lonlat_to_cell(p, res));
    let info = a5::verif::lookup_info();
    let (ok, id) = match r { Ok(Ok(id)) => (true, id), _ => (false, 0) };
    let mut class = "none";
    let (mut pm, mut rm, mut allow) = (0.0, 0.0, 0.0);
    if ok && res_of(id) != res {
        class = "wrongres"; // not even a cell of the requested resolution: nothing to measure
    } else if ok {
        if let (Ok(cell), Some(o)) = (deserialize(id), ring_oracle(id)) {
            // the oracles see the longitude reduced modulo 360 (f64 remainder is exact): the same physical point
            let pr = if p.longitude().abs() > 360.0 { LonLat::new(p.longitude() % 360.0, p.latitude()) } else { p };
            let c = classify(id, &cell, pr, &o);
            class = c.0; pm = c.1; rm = c.2; allow = o.allowance;
            // beyond 2^31 degrees a longitude is only known to ~5e-7 degrees (spacing of f64): the band along cell edges
            // is widened accordingly for these inputs (1e-7 rad), never for ordinary ones
            if kind == "lon_turns" && class == "out" && pm > -1e-7 && rm > -(allow + 1e-7) { class = "band"; }
        } else { class = "out"; }
    }
    json!({"op": "lookup", "kind": kind, "p": fmt_ll(p), "res": res, "ok": ok, "id": quads(id), "class": class,
           "planar_e15": q15(pm), "ring_e15": q15(rm), "allow_e15": q15(allow), "branch": info.branch, "estimates": info.estimates,
           "abslat": p.latitude().abs().floor() as i64})
}

/// one lookup with the step log of the search loop (verif hook): which estimate every sample gave, whether it was
/// skipped as seen before, whether it contained the query point.  Containment values travel as pos / rank (position in
/// the stable descending order), see spec/A5LookupSteps.tla
pub fn lookupsteps_event(p: LonLat, res: i32) -> Option<Value> {
    let r = catch(|| a5::lonlat_to_cell(p, res));
    let info = a5::verif::lookup_info();
    let steps = a5::verif::lookup_steps();
    let (ok, id) = match r { Ok(Ok(id)) => (true, id), _ => (false, 0) };
    if steps.iter().any(|s| s.containment.map(|d| d.is_nan()).unwrap_or(false)) { return None; }
    let mut cells: Vec<u64> = vec![];
    for s in &steps { if !cells.contains(&s.estimate) { cells.push(s.estimate); } }
    let tested: Vec<(usize, f64)> = steps.iter().enumerate().filter_map(|(i, s)| s.containment.filter(|d| !(*d > 0.0)).map(|d| (i, d))).collect();
    let rank_of = |i: usize| -> usize { match tested.iter().position(|t| t.0 == i) { None => 0,
        Some(pos) => { let d = tested[pos].1; tested.iter().filter(|t| t.1 > d).count() + tested[..pos].iter().filter(|t| t.1 == d).count() } } };
    let js: Vec<Value> = steps.iter().enumerate().map(|(i, s)| json!({"c": cells.iter().position(|&c| c == s.estimate).unwrap() + 1, "dup": s.seen_before,
        "tested": s.containment.is_some(), "pos": s.containment.map(|d| d > 0.0).unwrap_or(false), "rank": rank_of(i)})).collect();
    Some(json!({"op": "lookupsteps", "p": fmt_ll(p), "res": res, "ok": ok, "answer_id": quads(id), "cells": quads_list(&cells), "steps": js,
                "branch": info.branch, "sample": info.sample, "estimates": info.estimates}))
}

pub fn centre_event(id: u64) -> Value {
    let res = res_of(id);
    let c = catch(|| a5::cell_to_lonlat(id)).ok().and_then(|x| x.ok());
    let (ok, back, branch) = match c {
        Some(p) => { let b = catch(|| a5::lonlat_to_cell(p, res)).ok().and_then(|x| x.ok()); (b.is_some(), b.unwrap_or(0), a5::verif::lookup_info().branch) }
        None => (false, 0, 0),
    };
    let cl = c.map(|p| p.latitude().abs().floor() as i64).unwrap_or(0);
    json!({"op": "centre", "id": quads(id), "res": res, "ok": ok, "centre": c.map(fmt_ll).unwrap_or(json!([])), "back": quads(back), "branch": branch, "abslat": cl})
}

/// interior points of a cell hugging each edge and vertex at several relative depths; built from TRUE edge points
/// (points of a finely subdivided ring) pulled towards the centre, never from chord midpoints
pub fn interior_events(t: &mut Trace, op: &str, id: u64, rng: &mut Rng, depths: &[f64]) -> u64 {
    let res = res_of(id);
    let cell = match deserialize(id) { Ok(c) => c, Err(_) => return 0 };
    let oracle = match ring_oracle(id) { Some(o) => o, None => return 0 };
    let centre = match a5::cell_to_lonlat(id) { Ok(c) => c, Err(_) => return 0 };
    let fine = match ring_ll(id, 8, false) { Some(f) => f, None => return 0 };
    let mut n = 0;
    for (k, &e) in fine.iter().enumerate() {
        // every ring point: corners (k % 8 == 0) and true edge points
        let d = depths[(k + rng.below(depths.len() as u64) as usize) % depths.len()];
        for sign in [1.0, -1.0] {
            let p = towards(e, centre, sign * d);
            if p.latitude().abs() > 90.0 { continue; }
            let (class, pm, rm) = classify(id, &cell, p, &oracle);
            let back = catch(|| a5::lonlat_to_cell(p, res)).ok().and_then(|x| x.ok());
            let info = a5::verif::lookup_info();
            // the cell that answered must itself contain the point (C01), whichever side we are on
            let (bclass, bpm, brm) = match back { Some(b) if res_of(b) != res => ("wrongres", 0.0, 0.0),
                                                  Some(b) if b != id => match (deserialize(b), ring_oracle(b)) { (Ok(bc), Some(bo)) => classify(b, &bc, p, &bo), _ => ("out", 0.0, 0.0) },
                                                  Some(_) => (class, pm, rm), None => ("none", 0.0, 0.0) };
            t.emit(json!({"op": op, "id": quads(id), "res": res, "p": fmt_ll(p), "corner": k % 8 == 0, "depth": format!("{:e}", sign * d),
                          "class": class, "planar_e15": q15(pm), "ring_e15": q15(rm), "ok": back.is_some(), "back": quads(back.unwrap_or(0)),
                          "back_class": bclass, "back_planar_e15": q15(bpm), "back_ring_e15": q15(brm), "branch": info.branch,
                          // inside the REPORTED boundary polygon by more than the tolerance, whatever the planar oracle says
                          "ring_deep": rm > oracle.allowance + 2.0 * BAND && ring_in_view(&oracle.ring, p_of(p)),
                          "abslat": p.latitude().abs().floor() as i64}));
            n += 1;
        }
    }
    n
}

// ---------------------------------------------------------------- C03 mesh + C04 areas

struct Snapper { tol: f64, grid: HashMap<(i64, i64, i64), Vec<(usize, [f64; 3])>>, n: usize }
impl Snapper {
    fn new(tol: f64) -> Self { Snapper { tol, grid: HashMap::new(), n: 0 } }
    fn id(&mut self, p: P) -> usize {
        let v = [p.cosb() * p.lon.cos(), p.cosb() * p.lon.sin(), p.sinb()];
        let g = 4.0 * self.tol;
        let key = |x: f64| (x / g).floor() as i64;
        let (kx, ky, kz) = (key(v[0]), key(v[1]), key(v[2]));
        for dx in -1..=1 { for dy in -1..=1 { for dz in -1..=1 {
            if let Some(list) = self.grid.get(&(kx + dx, ky + dy, kz + dz)) {
                for (id, w) in list {
                    let d = ((v[0] - w[0]).powi(2) + (v[1] - w[1]).powi(2) + (v[2] - w[2]).powi(2)).sqrt();
                    if d < self.tol { return *id; }
                }
            }
        } } }
        let id = self.n;
        self.n += 1;
        self.grid.entry((kx, ky, kz)).or_default().push((id, v));
        id
    }
}

pub fn area_dev_ppm(id: u64, segments: i32) -> Option<i64> {
    let res = res_of(id);
    let ring: Vec<P> = ring_ll(id, segments, false)?.into_iter().map(p_of).collect();
    let c = p_of(a5::cell_to_lonlat(id).ok()?);
    let a = ring_area(&ring, c);
    let expected = 4.0 * std::f64::consts::PI / cells_at(res);
    Some(((a / expected - 1.0) * 1e6).round() as i64)
}

pub fn mesh_events(t: &mut Trace, res: i32, edge_points: i32) -> (u64, usize) {
    let cells = all_cells(res);
    let mut snap = Snapper::new(1e-7 * cell_size(res).min(0.1));
    t.emit(json!({"op": "reset"}));
    let mut n = 0;
    let mut batch = vec![];
    for &id in &cells {
        let ring = match ring_ll(id, edge_points, false) { Some(r) => r, None => { batch.push(json!({"id": quads(id), "verts": [], "dev_ppm": 999999})); continue; } };
        let verts: Vec<usize> = ring.iter().map(|&l| snap.id(p_of(l))).collect();
        let dev = area_dev_ppm(id, 64).unwrap_or(999999);
        batch.push(json!({"id": quads(id), "verts": verts, "dev_ppm": dev}));
        n += 1;
        if batch.len() == 192 {
            t.emit(json!({"op": "meshcells", "res": res, "cells": batch}));
            batch = vec![];
        }
    }
    if !batch.is_empty() { t.emit(json!({"op": "meshcells", "res": res, "cells": batch})); }
    t.emit(json!({"op": "meshend", "res": res, "nverts": snap.n, "edge_points": edge_points}));
    t.cut();
    (n, snap.n)
}

fn random_cell(rng: &mut Rng, res: i32) -> u64 {
    let h = if res >= 2 { res - 1 } else { 0 };
    let s = if h == 0 { 0 } else { rng.next() & ((1u64 << (2 * h)) - 1) };
    serialize(&A5Cell { origin_id: rng.below(12) as u8, segment: if res == 0 { 0 } else { rng.below(5) as usize }, s, resolution: res }).unwrap()
}

fn random_point(rng: &mut Rng) -> LonLat {
    let z = 2.0 * rng.f64() - 1.0;
    LonLat::new(360.0 * rng.f64() - 180.0, z.asin() / DEG)
}

pub fn area_event(id: u64) -> Value {
    let res = res_of(id);
    json!({"op": "area", "id": quads(id), "res": res, "dev_ppm": area_dev_ppm(id, 64).unwrap_or(999999)})
}

/// Continuity scan of the face -> sphere map along rays from every face centre: second differences of
/// inverse(rho * dir) at a step fine enough (2e-6 face units; smooth part 0.77 h^2 = 3e-12) to expose tears of a few
/// 1e-11 rad, i.e. a fraction of a millimetre, wherever a closed-form shortcut switches (circles around the face
/// centre, lines parallel to the face edge, the edge itself); each anomaly is localised by bisection to 1e-13.
/// Returns the lon/lat of the anomalies.  One thread per face.
pub fn continuity_flags(tier: &str) -> Vec<LonLat> {
    use a5::coordinate_systems::Face;
    let nrays = if tier == "thorough" { 24 } else { 6 };
    let mut handles = vec![];
    for origin in 0..12u8 {
        handles.push(std::thread::spawn(move || {
            let mut proj = DodecahedronProjection::new().unwrap();
            let mut out: Vec<LonLat> = vec![];
            for k in 0..nrays {
                let ang = (k as f64 + 0.37 + 0.11 * origin as f64) * std::f64::consts::TAU / nrays as f64;
                let (ca, sa) = (ang.cos(), ang.sin());
                let f = |proj: &mut DodecahedronProjection, rho: f64| -> [f64; 3] {
                    let s = proj.inverse(Face::new(rho * ca, rho * sa), origin).unwrap();
                    let (t, p) = (s.theta().get(), s.phi().get());
                    [p.sin() * t.cos(), p.sin() * t.sin(), p.cos()]
                };
                let d2 = |a: [f64; 3], b: [f64; 3], c: [f64; 3]| ((a[0] - 2.0 * b[0] + c[0]).powi(2) + (a[1] - 2.0 * b[1] + c[1]).powi(2) + (a[2] - 2.0 * b[2] + c[2]).powi(2)).sqrt();
                // geometric steps close to the centre, then a uniform fine step; consecutive samples are reused
                let mut rho = 1e-6;
                let mut last_flag = 0.0;
                let (mut pa, mut pb) = (f(&mut proj, rho * (1.0 - 1e-3)), f(&mut proj, rho));
                let mut h_prev = 1e-3 * rho;
                while rho < 0.72 {
                    let h = (1e-3 * rho).min(2e-6);
                    if (h - h_prev).abs() > 1e-18 * h.max(1e-30) && h != h_prev { pa = f(&mut proj, rho - h); }
                    let pc = f(&mut proj, rho + h);
                    let dd = d2(pa, pb, pc);
                    if dd > 2.5 * h * h + 8e-15 && rho > last_flag + 40.0 * h {
                        let (mut rc, mut hc) = (rho, h);
                        for _ in 0..40 {
                            hc *= 0.5;
                            if hc < 1e-13 { break; }
                            let mut best = (0.0, rc);
                            for cand in [rc - hc, rc, rc + hc] {
                                let v = d2(f(&mut proj, cand - hc), f(&mut proj, cand), f(&mut proj, cand + hc));
                                if v > best.0 { best = (v, cand); }
                            }
                            rc = best.1;
                        }
                        let sp = proj.inverse(Face::new(rc * ca, rc * sa), origin).unwrap();
                        out.push(a5::core::coordinate_transforms::to_lon_lat(sp));
                        last_flag = rho;
                    }
                    pa = pb; pb = pc; h_prev = h;
                    rho += h;
                }
            }
            out
        }));
    }
    // circles around every face centre (a tear ALONG a ray is crossed by a circle, not by a ray)
    let radii: Vec<f64> = if tier == "thorough" { vec![0.02, 0.08, 0.2, 0.35, 0.5, 0.62, 0.7] } else { vec![0.05, 0.3, 0.6] };
    for origin in 0..12u8 {
        let radii = radii.clone();
        handles.push(std::thread::spawn(move || {
            let mut proj = DodecahedronProjection::new().unwrap();
            let mut out: Vec<LonLat> = vec![];
            for rho in radii {
                let f = |proj: &mut DodecahedronProjection, a: f64| -> [f64; 3] {
                    let s = proj.inverse(Face::new(rho * a.cos(), rho * a.sin()), origin).unwrap();
                    let (t, p) = (s.theta().get(), s.phi().get());
                    [p.sin() * t.cos(), p.sin() * t.sin(), p.cos()]
                };
                let d2 = |a: [f64; 3], b: [f64; 3], c: [f64; 3]| ((a[0] - 2.0 * b[0] + c[0]).powi(2) + (a[1] - 2.0 * b[1] + c[1]).powi(2) + (a[2] - 2.0 * b[2] + c[2]).powi(2)).sqrt();
                let da = 2e-6 / rho; // arc step 2e-6 face units
                let mut ang = -std::f64::consts::PI + 1e-4 * origin as f64;
                let end = ang + std::f64::consts::TAU;
                let (mut pa, mut pb) = (f(&mut proj, ang - da), f(&mut proj, ang));
                let mut last_flag = f64::NEG_INFINITY;
                let h = 2e-6;
                while ang < end {
                    let pc = f(&mut proj, ang + da);
                    let dd = d2(pa, pb, pc);
                    // the smooth part along a circle has curvature ~ 1/rho on top of the map's own
                    if dd > (2.5 + 1.5 / rho) * h * h + 8e-15 && ang > last_flag + 40.0 * da {
                        let (mut ac, mut hc) = (ang, da);
                        for _ in 0..40 {
                            hc *= 0.5;
                            if hc * rho < 1e-13 { break; }
                            let mut best = (0.0, ac);
                            for cand in [ac - hc, ac, ac + hc] {
                                let v = d2(f(&mut proj, cand - hc), f(&mut proj, cand), f(&mut proj, cand + hc));
                                if v > best.0 { best = (v, cand); }
                            }
                            ac = best.1;
                        }
                        let sp = proj.inverse(Face::new(rho * ac.cos(), rho * ac.sin()), origin).unwrap();
                        out.push(a5::core::coordinate_transforms::to_lon_lat(sp));
                        last_flag = ang;
                    }
                    pa = pb; pb = pc;
                    ang += da;
                }
            }
            out
        }));
    }
    let mut all = vec![];
    for h in handles { all.extend(h.join().unwrap()); }
    all
}

/// the latitude stage (geodetic <-> authalic) is a scalar function: a log-spaced scan away from the equator and from the
/// poles (ratio 1.002 from 1e-9 rad = 6 mm) compares the slopes of consecutive intervals; a closed-form shortcut that
/// switches at some latitude shows as a slope jump (the true function changes its slope by < 1e-5 per step).  Returns
/// geodetic latitudes (degrees, both signs).  Like continuity_flags, the scan only chooses WHERE the properties are
/// then evaluated.
pub fn latitude_flags() -> Vec<f64> {
    use a5::coordinate_systems::Radians;
    use a5::projections::authalic::AuthalicProjection;
    let au = AuthalicProjection;
    let mut flags: Vec<f64> = vec![];
    for dir in 0..2 {
        for base in [0.0f64, std::f64::consts::FRAC_PI_2] {
            let f = |x: f64| -> f64 {
                let arg = if base == 0.0 { x } else { base - x };
                let v = if dir == 0 { au.forward(Radians::new_unchecked(arg)).get() } else { au.inverse(Radians::new_unchecked(arg)).get() };
                if base == 0.0 { v } else { base - v }
            };
            let mut x = 1e-9f64;
            let (mut x0, mut f0) = (x, f(x));
            let mut prev_slope = f64::NAN;
            let mut last = 0.0;
            while x < 0.8 {
                x *= 1.002;
                let fx = f(x);
                let slope = (fx - f0) / (x - x0);
                if prev_slope.is_finite() && (slope / prev_slope - 1.0).abs() > 1e-2 && x > last * 1.05 {
                    // geodetic latitude of the anomaly (for the inverse direction the argument is authalic: convert)
                    let arg = if base == 0.0 { x0 } else { base - x0 };
                    let geo = if dir == 0 { arg } else { au.inverse(Radians::new_unchecked(arg)).get() };
                    flags.push(geo.to_degrees());
                    last = x;
                }
                prev_slope = slope; x0 = x; f0 = fx;
            }
        }
    }
    flags
}

/// points on flagged parallels (both hemispheres), a few longitudes, offsets of up to two cell sizes
pub fn lat_flag_points(rng: &mut Rng, res: i32) -> Vec<LonLat> {
    let mut v = vec![];
    for l in latitude_flags().into_iter().take(12) {
        for lon in [-170.0, -93.0, -40.5, 0.0, 15.3, 87.0, 120.7, 179.5] {
            for k in [-2.0, -1.0, -0.5, 0.0, 0.5, 1.0, 2.0] {
                let d = k * cell_size(res) / DEG * (0.8 + 0.4 * rng.f64());
                for sgn in [1.0, -1.0] { let lat: f64 = sgn * l + d; if lat.abs() < 90.0 { v.push(LonLat::new(lon + rng.f64() * 1e-3, lat)); } }
            }
        }
    }
    v
}

pub fn gen_c04(tier: &str, seed: u64, out: &str) -> Value {
    let mut rng = Rng::new(seed ^ 0xC04);
    let mut t = Trace::new(out, "c04", 400);
    // metadata: cell_area(r) * num_cells(r) = authalic area, as one measured ratio per resolution
    for r in 0..=29 {
        let ratio = a5::cell_area(r) * cells_at(r) / a5::cell_area(-1);
        let n = a5::get_num_cells(r);
        t.emit(json!({"op": "areameta", "res": r, "ratio_dev_ppb": ((ratio - 1.0) * 1e9).round() as i64,
                      "count_mant": if r == 0 { n } else { n >> (2 * (r - 1)).min(54) }, "count_exact": r < 28,
                      "count_str": n.to_string()}));
    }
    t.cut();
    // every cell r <= 3 (quick) / 5 (thorough) rides on the mesh trace (C03); here: sampled cells on every face/quintant
    let exr = if tier == "thorough" { 5 } else { 3 };
    let mut n = 0u64;
    for r in 0..=exr {
        for id in all_cells(r) { t.emit(area_event(id)); n += 1; t.cut(); }
    }
    let per = if tier == "thorough" { 40 } else { 6 };
    for r in (exr + 1)..=29 {
        for face in 0..12u8 { for seg in 0..5usize { for k in 0..per {
            let h = r - 1;
            let s = match k { 0 => 0, 1 => (1u64 << (2 * h)) - 1, _ => rng.next() & ((1u64 << (2 * h)) - 1) };
            let id = serialize(&A5Cell { origin_id: face, segment: seg, s, resolution: r }).unwrap();
            t.emit(area_event(id)); n += 1; t.cut();
        } } }
    }
    // continuity scan of the face -> sphere map (see continuity_flags): the cells that contain a flagged point are
    // measured like any other cell -- the scan only chooses WHERE to look
    let flagged = continuity_flags(tier);
    for ll in &flagged {
        for r in (if tier == "thorough" { 6 } else { 12 })..=29 {
            if tier != "thorough" && r % 2 == 1 && r < 22 { continue; }
            if let Ok(id) = a5::lonlat_to_cell(*ll, r) { t.emit(area_event(id)); n += 1; }
        }
        t.cut();
    }
    // cells at poles, face vertices, seams: found by lookup
    for r in 0..=29 {
        for p in special_points() { if let Ok(id) = a5::lonlat_to_cell(p, r) { t.emit(area_event(id)); n += 1; } }
        t.cut();
    }
    t.finish();
    json!({"files": t.files, "events": t.events, "cells_measured": n, "exhaustive_to_res": exr, "continuity_scan_flagged_points": flagged.len(),
           "samples": [area_event(random_cell(&mut rng, 7))]})
}

/// poles, antimeridian, the 12 face centres, the 20 face vertices and 30 edge midpoints (from the res-0 rings)
pub fn ring_ll_pub(id: u64, n: i32) -> Option<Vec<LonLat>> { ring_ll(id, n, false) }

pub fn special_points() -> Vec<LonLat> {
    let mut v = vec![LonLat::new(0.0, 90.0), LonLat::new(0.0, -90.0), LonLat::new(180.0, 0.0), LonLat::new(-180.0, 45.0), LonLat::new(179.999999, -60.0)];
    // "round" coordinates people actually use and code special-cases: Null Island, the prime meridian, the equator,
    // multiples of 45 / 90 degrees, and the library's own zero and seam meridians (theta = lon + 93 = 0 / 180)
    for lon in [0.0, 90.0, -90.0, 45.0, -45.0, 135.0, -135.0, -93.0, 87.0] {
        for lat in [0.0, 45.0, -45.0, 30.0, -60.0, 85.0, -85.0] { v.push(LonLat::new(lon, lat)); }
    }
    for k in 0..12 { v.push(LonLat::new(30.0 * k as f64 - 165.0, 0.0)); v.push(LonLat::new(0.0, 15.0 * k as f64 - 82.5)); }
    for id in all_cells(0) {
        if let Ok(c) = a5::cell_to_lonlat(id) { v.push(c); }
        if let Some(ring) = ring_ll(id, 2, false) { v.extend(ring); }
    }
    v
}

pub fn gen_c03(tier: &str, seed: u64, out: &str) -> Value {
    let mut rng = Rng::new(seed ^ 0xC03);
    let mut t = Trace::new(out, "c03", 300);
    let maxr = if tier == "thorough" { 5 } else { 3 };
    let mut meshed = vec![];
    for r in 0..=maxr {
        let (n, v) = mesh_events(&mut t, r, if tier == "thorough" && r <= 4 { 4 } else { 1 });
        meshed.push(json!({"res": r, "cells": n, "vertices": v}));
    }
    // local owner uniqueness at all resolutions: a point, the cells found around it, strict containment of each
    let n_probe = if tier == "thorough" { 6000 } else { 600 };
    let mut n_own = 0u64;
    let specials = special_points();
    for i in 0..n_probe {
        let res = 2 + (i % 28) as i32;
        let base = if i % 3 == 0 { let s = *rng.pick(&specials); let k = cell_size(res) / DEG * (rng.f64() * 2.0 - 1.0) * [1e-9, 1e-3, 0.3, 1.0][i / 3 % 4];
                                   LonLat::new(s.longitude() + k, (s.latitude() + k * (rng.f64() - 0.5)).clamp(-90.0, 90.0)) } else { random_point(&mut rng) };
        if base.latitude().abs() > 89.0 { continue; }
        t.emit(owners_event(base, res, &mut rng));
        n_own += 1;
        t.cut();
    }
    // local edge matching at every resolution: cells on every face x quintant (first, last, pattern and random
    // positions), cells at special points
    let mut n_local = 0u64;
    let per = if tier == "thorough" { 24 } else { 3 };
    for res in 2..=29 {
        let h = res - 1;
        for face in 0..12u8 { for seg in 0..5usize { for k in 0..per {
            let mask = (1u64 << (2 * h)) - 1;
            let ns = crate::ids::numeric_specials(h as usize, &mut rng);
            let s = match k { 0 => rng.next() & mask, 1 => if (face as usize + seg) % 2 == 0 { 0 } else { mask },
                              2 if !ns.is_empty() => *rng.pick(&ns), _ => rng.next() & mask };
            let id = serialize(&A5Cell { origin_id: face, segment: seg, s, resolution: res }).unwrap();
            t.emit(localmesh_event(id));
            n_local += 1;
        } } t.cut(); }
        for (i, p) in specials.iter().enumerate() {
            if tier != "thorough" && (i + res as usize) % 4 != 0 { continue; }
            if let Ok(id) = a5::lonlat_to_cell(*p, res) { t.emit(localmesh_event(id)); n_local += 1; }
        }
        t.cut();
    }
    for r in [26, 28, 29] {
        for p in lat_flag_points(&mut rng, r) {
            t.emit(owners_event(p, r, &mut rng)); n_own += 1;
            if let Ok(id) = a5::lonlat_to_cell(p, r) { t.emit(localmesh_event(id)); n_local += 1; }
        }
        t.cut();
    }
    t.finish();
    json!({"files": t.files, "events": t.events, "meshes": meshed, "owner_probes": n_own, "local_edge_checks": n_local, "samples": [owners_event(LonLat::new(10.0, 20.0), 9, &mut rng)]})
}

/// local mesh closure at any resolution: every edge of the cell must be shared, end point for end point, with the
/// cell found just across it (its twin edge runs the other way round in that neighbour's ring)
pub fn localmesh_event(id: u64) -> Value {
    let res = res_of(id);
    let ring = ring_ll(id, 1, false).unwrap_or_default();
    let n = ring.len();
    let centre = a5::cell_to_lonlat(id).ok();
    let ring2 = ring_ll(id, 2, false).unwrap_or_default();
    // coincidence tolerance: 1e-6 of the cell plus the absolute noise of f64 degrees (a res-29 cell is 1.7e-9 rad wide,
    // one ulp of a longitude is 5e-16 rad and the two rings are computed independently)
    let tol = 1e-6 * cell_size(res) + 5e-14;
    let mut twinned = vec![];
    let mut nbrs = vec![];
    let mut inward = vec![];
    if let Some(c) = centre {
        for i in 0..n {
            let (a, b) = (ring[i], ring[(i + 1) % n]);
            // true edge midpoint (ring with 2 segments per edge), pushed outwards by a few per cent of the cell;
            // several distances, because edges differ in length and the neighbour across a short edge is small
            let mid = if ring2.len() == 2 * n { ring2[(2 * i + 2) % (2 * n)] } else { towards(a, b, 0.5) };
            let mut ok = false;
            let mut nb = None;
            for push in [0.01, 0.03, 0.08, 0.003] {
                let out = towards(mid, c, -push);
                let cand = a5::lonlat_to_cell(out, res).ok();
                if let Some(y) = cand {
                    if y == id { continue; }
                    nb = Some(y);
                    if let Some(yr) = ring_ll(y, 1, false) {
                        let m = yr.len();
                        let (pa, pb) = (p_of(a), p_of(b));
                        for j in 0..m {
                            // the neighbour must list b -> a consecutively
                            if distance(p_of(yr[j]), pb) < tol && distance(p_of(yr[(j + 1) % m]), pa) < tol { ok = true; }
                        }
                    }
                    if ok { break; }
                }
            }
            twinned.push(ok);
            nbrs.push(nb.unwrap_or(0));
            // ... and just inside the edge the cell itself must answer (a ring that is a valid ring of ANOTHER cell passes
            // every twin test above: then two cells claim this ground and the cell's own ground is claimed by none)
            inward.push(a5::lonlat_to_cell(towards(mid, c, 0.03), res).ok() == Some(id));
        }
    }
    json!({"op": "localmesh", "id": quads(id), "res": res, "sides": n, "twinned": twinned, "nbrs": quads_list(&nbrs), "inward": inward})
}

/// candidates: the cells answering lookups of the point and of 12 points pushed around it by up to 1.5 cell sizes
fn owners_event(p: LonLat, res: i32, rng: &mut Rng) -> Value {
    let sz = cell_size(res) / DEG;
    let mut cands: Vec<u64> = vec![];
    let coslat = (p.latitude() * DEG).cos().max(1e-6);
    for k in 0..13 {
        let (dx, dy) = if k == 0 { (0.0, 0.0) } else { let a = k as f64 * 0.5236 + rng.f64(); let rr = sz * (0.5 + (k % 3) as f64 * 0.5); (rr * a.cos() / coslat, rr * a.sin()) };
        let q = LonLat::new(p.longitude() + dx, (p.latitude() + dy).clamp(-90.0, 90.0));
        if let Ok(id) = a5::lonlat_to_cell(q, res) { if !cands.contains(&id) { cands.push(id); } }
    }
    let mut classes = vec![];
    for &c in &cands {
        let cl = match (deserialize(c), ring_oracle(c)) { (Ok(cell), Some(o)) => classify(c, &cell, p, &o).0, _ => "out" };
        classes.push(cl);
    }
    json!({"op": "owners", "p": fmt_ll(p), "res": res, "cands": quads_list(&cands), "classes": classes})
}

// ---------------------------------------------------------------- C11 boundary ring

pub fn boundary_event(id: u64, n: Option<i32>, closed: bool) -> Value {
    let res = res_of(id);
    let opts = CellToBoundaryOptions { closed_ring: closed, segments: n };
    let ring = catch(|| a5::cell_to_boundary(id, Some(opts))).ok().and_then(|x| x.ok());
    let centre = a5::cell_to_lonlat(id).ok();
    let (ring, centre) = match (ring, centre) { (Some(r), Some(c)) if !r.is_empty() => (r, c), _ => return json!({"op": "boundary", "id": quads(id), "res": res, "ok": false, "n": n.unwrap_or(0), "dflt": n.is_none(), "closed": closed,
        "len": 0, "first_eq_last": false, "finite": false, "lat_ok": false, "ccw": false, "centre_inside": false, "window_ok": false, "touches_pole": false, "corner_dev_e12": 0}) };
    let len = ring.len();
    let finite = ring.iter().all(|p| p.longitude().is_finite() && p.latitude().is_finite());
    let lat_ok = ring.iter().all(|p| p.latitude().abs() <= 90.0 + 1e-9);
    let first_eq_last = ring[0].longitude() == ring[len - 1].longitude() && ring[0].latitude() == ring[len - 1].latitude();
    let open: Vec<LonLat> = if closed { ring[..len - 1].to_vec() } else { ring.clone() };
    let ps: Vec<P> = open.iter().map(|&l| p_of(l)).collect();
    let c = p_of(centre);
    let ccw = ring_area(&ps, c) > 0.0;
    let centre_inside = ring_margin(&ps, c) > 0.0;
    let (mn, mx) = ring.iter().fold((f64::INFINITY, f64::NEG_INFINITY), |a, p| (a.0.min(p.longitude()), a.1.max(p.longitude())));
    let window_ok = mx - mn < 180.0;
    // does the cell touch a pole?  (pole inside the ring or on it), decided with the independent ring oracle
    let mut touches_pole = false;
    for lat in [90.0, -90.0] {
        let pole = P::pole(lat > 0.0);
        if ps.iter().all(|&v| distance(pole, v) < 1.3) && ring_margin(&ps, pole) > -1e-9 { touches_pole = true; }
    }
    // corners: with k segments per edge the open ring is the reverse of [v0, ..., v1, ...]; corner j sits at len-1-j*k
    let k = (open.len() / if res == 1 { 3 } else { 5 }).max(1);
    let corners1 = ring_ll(id, 1, false).unwrap_or_default();
    let mut dev: f64 = 0.0;
    if corners1.len() * k == open.len() {
        for (j, c1) in corners1.iter().enumerate() {
            // corners1 is itself reversed: its index j corresponds to original corner (m-1-j)
            let m = corners1.len();
            let orig = m - 1 - j;
            let idx = if closed { (open.len() - orig * k) % open.len() } else { open.len() - 1 - orig * k };
            dev = dev.max(distance(p_of(*c1), p_of(open[idx])));
        }
    } else { dev = 1.0; }
    json!({"op": "boundary", "id": quads(id), "res": res, "ok": true, "n": n.unwrap_or(0), "dflt": n.is_none(), "closed": closed, "len": len,
           "first_eq_last": first_eq_last, "finite": finite, "lat_ok": lat_ok, "ccw": ccw, "centre_inside": centre_inside,
           "window_ok": window_ok, "touches_pole": touches_pole, "corner_dev_e12": (dev * 1e12).min(2e9) as i64, "lon_span_mdeg": ((mx - mn) * 1000.0) as i64})
}

pub fn gen_c11(tier: &str, seed: u64, out: &str, mc: Option<&str>) -> Value {
    let mut rng = Rng::new(seed ^ 0xC11);
    let mut t = Trace::new(out, "c11", 400);
    let mut n = 0u64;
    let ns: Vec<Option<i32>> = vec![None, Some(1), Some(2), Some(3), Some(7), Some(16), Some(64)];
    // scenario classes from the model checker: resolution class x location class x n x closed
    let plan: Vec<Value> = mc.and_then(|p| std::fs::read_to_string(p).ok()).map(|txt| txt.lines().filter_map(|l| serde_json::from_str(l).ok()).collect()).unwrap_or_default();
    let specials = special_points();
    let per = if tier == "thorough" { 8 } else { 2 };
    for sc in plan.iter().filter(|s| s["kind"] == "ringscenario") {
        let (rlo, rhi) = (sc["rlo"].as_i64().unwrap() as i32, sc["rhi"].as_i64().unwrap() as i32);
        let nn = match sc["n"].as_i64().unwrap() { 0 => None, x => Some(x as i32) };
        let closed = sc["closed"].as_bool().unwrap();
        for _ in 0..per {
            let r = rng.range(rlo as i64, rhi as i64) as i32;
            let p = match sc["loc"].as_str().unwrap() {
                "antimeridian" => LonLat::new(if rng.chance(0.5) { 180.0 } else { -180.0 } + (rng.f64() - 0.5) * cell_size(r) / DEG, rng.f64() * 160.0 - 80.0),
                // the seam of the library's own longitudes: theta = longitude + 93 wraps at 180, i.e. at 87 E (and its alias -273)
                "theta_seam" => { let lat = if rng.chance(0.6) { (60.0 + 29.9 * rng.f64()) * if rng.chance(0.5) { 1.0 } else { -1.0 } } else { rng.f64() * 120.0 - 60.0 };
                                  LonLat::new(87.0 + (rng.f64() - 0.5) * 2.0 * cell_size(r) / DEG / (lat * DEG).cos().max(1e-3), lat) }
                "pole" => LonLat::new(rng.f64() * 360.0 - 180.0, if rng.chance(0.5) { 90.0 } else { -90.0 }),
                "pole_adjacent" => LonLat::new(rng.f64() * 360.0 - 180.0, (90.0 - (1.0 + 2.0 * rng.f64()) * cell_size(r) / DEG) * if rng.chance(0.5) { 1.0 } else { -1.0 }),
                "face_vertex" => { let s = *rng.pick(&specials); LonLat::new(s.longitude() + (rng.f64() - 0.5) * cell_size(r) / DEG, (s.latitude() + (rng.f64() - 0.5) * cell_size(r) / DEG).clamp(-90.0, 90.0)) }
                _ => random_point(&mut rng),
            };
            if let Ok(id) = a5::lonlat_to_cell(p, r) {
                if r <= 2 && nn == Some(64) && tier != "thorough" { continue; }
                t.emit(boundary_event(id, nn, closed));
                n += 1;
            }
        }
        t.cut();
    }
    // "every n >= 1": a few very fine subdivisions around powers of two and ten (only counts and summary flags travel)
    for (i, big) in [100i32, 255, 256, 1000, 1024, 1025, 4096, 10000].iter().enumerate() {
        for r in [0, 1, 2, 7, 16, 29] {
            if tier != "thorough" && (i + r as usize) % 3 != 0 { continue; }
            let p = random_point(&mut rng);
            if let Ok(id) = a5::lonlat_to_cell(p, r) { t.emit(boundary_event(id, Some(*big), i % 2 == 0)); n += 1; }
        }
        t.cut();
    }
    // longitude unwrapping on synthetic whole-degree rings: centres on a 30-degree grid (incl. the antimeridian), five
    // points within 45 degrees of it, each input carrying an arbitrary multiple of 360
    let mut n_unwrap = 0u64;
    for clon in (-180..180).step_by(30) { for clat in [-60i64, -30, 0, 45, 75] { for v in 0..(if tier == "thorough" { 12 } else { 3 }) {
        let pts: Vec<(i64, i64)> = (0..5).map(|k| (clon + [-45, -15, 0, 30, 45][(k + v as usize) % 5] as i64 + 360 * rng.range(-1, 1), clat + [10i64, -10, 5, -5, 0][k])).collect();
        let contour: Vec<LonLat> = pts.iter().map(|&(l, a)| LonLat::new(l as f64, a as f64)).collect();
        let outp = a5::core::coordinate_transforms::normalize_longitudes(contour);
        let outs: Vec<i64> = outp.iter().map(|p| p.longitude().round() as i64).collect();
        let exact = outp.iter().all(|p| p.longitude() == p.longitude().round());
        t.emit(json!({"op": "unwrap", "lons": pts.iter().map(|p| p.0).collect::<Vec<_>>(), "lats": pts.iter().map(|p| p.1).collect::<Vec<_>>(),
                      "outs": if exact { outs } else { vec![] }}));
        n_unwrap += 1;
    } } t.cut(); }
    // every cell of res 0..2 (3 in thorough) x all n x closed/open
    for r in 0..=(if tier == "thorough" { 3 } else { 2 }) {
        for id in all_cells(r) {
            for nn in &ns { for closed in [true, false] {
                if *nn == Some(64) && r >= 2 && tier != "thorough" { continue; }
                t.emit(boundary_event(id, *nn, closed)); n += 1;
            } }
            t.cut();
        }
    }
    t.finish();
    json!({"files": t.files, "events": t.events, "boundary_calls": n, "scenarios": plan.len(), "unwrap_rings": n_unwrap, "samples": [boundary_event(random_cell(&mut rng, 6), Some(3), true)]})
}

// ---------------------------------------------------------------- C01 / C02 drivers

fn scenario_points(rng: &mut Rng, res: i32, loc: &str, specials: &[LonLat]) -> Vec<LonLat> {
    let sz = cell_size(res) / DEG;
    match loc {
        "uniform" => vec![random_point(rng)],
        "pole" => vec![LonLat::new(rng.f64() * 720.0 - 360.0, 90.0), LonLat::new(rng.f64() * 720.0 - 360.0, -90.0)],
        "polar_cap" => vec![LonLat::new(rng.f64() * 360.0 - 180.0, (66.0 + 24.0 * rng.f64()) * if rng.chance(0.5) { 1.0 } else { -1.0 })],
        "antimeridian" => vec![LonLat::new(180.0 - rng.f64() * sz * [1e-9, 1e-3, 1.0][rng.below(3) as usize], rng.f64() * 170.0 - 85.0),
                               LonLat::new(-180.0 + rng.f64() * sz * [1e-9, 1e-3, 1.0][rng.below(3) as usize], rng.f64() * 170.0 - 85.0)],
        "lon_alias" => { let p = random_point(rng); let k = [360.0, -360.0, 720.0][rng.below(3) as usize]; vec![p, LonLat::new(p.longitude() + k, p.latitude())] }
        "seam" | "face_vertex" => { let s = *rng.pick(specials); let k = sz * (rng.f64() * 2.0 - 1.0) * [1e-9, 1e-4, 1e-2, 1.0][rng.below(4) as usize];
                     vec![LonLat::new(s.longitude() + k, (s.latitude() + k * (rng.f64() - 0.5)).clamp(-90.0, 90.0))] }
        _ => vec![random_point(rng)],
    }
}

/// Hook-guided mass probing (shared by C01 and C02): very many cheap lookups of edge-hugging points at res 8..29; the
/// winning probe index reported by the branch hook is the fitness.  Returns the hard cases
/// (probe index, res, lon, lat, source cell, signed relative depth), hardest first, plus the histogram.
pub fn mass_probe(tier: &str, seed: u64) -> (Vec<(u8, i32, f64, f64, u64, f64)>, Vec<u64>, u64) {
    let nmass: u64 = if tier == "thorough" { 12_000_000 } else { 1_200_000 };
    let nthreads = 12u64;
    let mut handles = vec![];
    for th in 0..nthreads {
        let mut r2 = Rng::new(seed ^ 0xC01 ^ (th + 1) * 0x9E37);
        let quota = nmass / nthreads;
        handles.push(std::thread::spawn(move || {
            let mut hard: Vec<(u8, i32, f64, f64, u64, f64)> = vec![];
            let mut hist = [0u64; 28];
            let mut done = 0u64;
            while done < quota {
                let res = 8 + r2.below(22) as i32;
                let base = random_point(&mut r2);
                let cell = match a5::lonlat_to_cell(base, res) { Ok(c) => c, Err(_) => continue };
                let ring = match ring_ll(cell, 1, false) { Some(r) if r.len() >= 3 => r, _ => continue };
                let centre = match a5::cell_to_lonlat(cell) { Ok(c) => c, Err(_) => continue };
                for q in 0..48 {
                    let i = r2.below(ring.len() as u64) as usize;
                    // along the edges, and (every third probe) right next to a corner
                    let e = if q % 3 == 0 { ring[i] } else { towards(ring[i], ring[(i + 1) % ring.len()], r2.f64()) };
                    let depth = [1e-3, 1e-2, 0.05, 0.2, -1e-3, -1e-2, -0.05, 0.6, 0.03, 0.1][r2.below(10) as usize];
                    let p = towards(e, centre, depth);
                    if a5::lonlat_to_cell(p, res).is_err() { continue; }
                    let info = a5::verif::lookup_info();
                    let key = if info.branch == 4 { 27 } else { info.sample.min(26) };
                    hist[key as usize] += 1;
                    if key >= 9 { hard.push((key, res, p.longitude(), p.latitude(), cell, depth)); }
                    done += 1;
                }
            }
            (hard, hist, done)
        }));
    }
    let mut hard_all: Vec<(u8, i32, f64, f64, u64, f64)> = vec![];
    let mut hist_all = [0u64; 28];
    let mut n_mass = 0u64;
    for h in handles { let (hd, hs, d) = h.join().unwrap(); hard_all.extend(hd); for k in 0..28 { hist_all[k] += hs[k]; } n_mass += d; }
    hard_all.sort_by(|a, b| b.0.cmp(&a.0));
    // second stage: hard points cluster in slivers -- explore the neighbourhood of the hardest ones for still later
    // probes / fallbacks (local search on the hook's probe index)
    let seeds_pts: Vec<(u8, i32, f64, f64, u64, f64)> = hard_all.iter().take(if tier == "thorough" { 3000 } else { 400 }).cloned().collect();
    let mut r3 = Rng::new(seed ^ 0x5EED);
    for (k0, res, lon, lat, _cell, _d) in seeds_pts {
        let sz = cell_size(res) / DEG;
        let coslat = (lat * DEG).cos().max(1e-3);
        let (mut best, mut bl, mut bt) = (k0, lon, lat);
        for step in 0..120 {
            let scale = sz * [0.3, 0.1, 0.03, 0.01][step % 4];
            let (l2, t2) = (bl + (r3.f64() - 0.5) * scale / coslat, (bt + (r3.f64() - 0.5) * scale).clamp(-90.0, 90.0));
            if a5::lonlat_to_cell(LonLat::new(l2, t2), res).is_err() { continue; }
            let info = a5::verif::lookup_info();
            let key = if info.branch == 4 { 27 } else { info.sample.min(26) };
            n_mass += 1;
            hist_all[key as usize] += 1;
            if key >= best { if key > best || step % 3 == 0 { best = key; bl = l2; bt = t2; } hard_all.push((key, res, l2, t2, 0, 0.0)); }
        }
    }
    hard_all.sort_by(|a, b| b.0.cmp(&a.0));
    (hard_all, hist_all.to_vec(), n_mass)
}

pub fn gen_c01(tier: &str, seed: u64, out: &str, mc: Option<&str>) -> Value {
    let mut rng = Rng::new(seed ^ 0xC01);
    let mut t = Trace::new(out, "c01", 500);
    let plan: Vec<Value> = mc.and_then(|p| std::fs::read_to_string(p).ok()).map(|txt| txt.lines().filter_map(|l| serde_json::from_str(l).ok()).collect()).unwrap_or_default();
    let specials = special_points();
    let per = if tier == "thorough" { 40 } else { 3 };
    let mut n = 0u64;
    let mut n_steps = 0u64;
    let mut branches = [0u64; 5];
    for sc in plan.iter().filter(|s| s["kind"] == "lookupscenario") {
        let (rlo, rhi) = (sc["rlo"].as_i64().unwrap() as i32, sc["rhi"].as_i64().unwrap() as i32);
        let loc = sc["loc"].as_str().unwrap();
        for _ in 0..per {
            let r = rng.range(rlo as i64, rhi as i64) as i32;
            for p in scenario_points(&mut rng, r, loc, &specials) {
                let e = lookup_event(p, r, loc);
                branches[(e["branch"].as_u64().unwrap_or(0) as usize).min(4)] += 1;
                t.emit(e);
                n += 1;
                if n % 4 == 0 { if let Some(e2) = lookupsteps_event(p, r) { t.emit(e2); n_steps += 1; } }
            }
        }
        t.cut();
    }
    // edge/vertex hugging points of real cells (their neighbours must answer correctly too)
    let ncell = if tier == "thorough" { 1500 } else { 120 };
    let mut n_hug = 0u64;
    for i in 0..ncell {
        let r = (i % 30) as i32;
        let id = if i % 4 == 0 { a5::lonlat_to_cell(*rng.pick(&specials), r).unwrap_or_else(|_| random_cell(&mut rng, r)) } else { random_cell(&mut rng, r) };
        n_hug += interior_events(&mut t, "interior1", id, &mut rng, &[1e-13, 1e-10, 1e-7, 1e-4, 1e-2, 0.3]);
        t.cut();
    }
    // every special point itself (no offset) at every resolution
    for (i, p) in specials.iter().enumerate() {
        for r in 0..=29 { if tier == "thorough" || (i + r as usize) % 3 == 0 { t.emit(lookup_event(*p, r, "special_exact")); n += 1; } }
        t.cut();
    }
    // astronomically many turns: +-6e6 and +-1e7 turns exceed 2^31 degrees; the point is the centre of a res-9 cell, so that
    // the 4e-9 rad the argument reduction itself loses cannot matter, and only coarse resolutions are asked for
    for i in 0..(if tier == "thorough" { 400 } else { 60 }) {
        let c9 = match a5::lonlat_to_cell(random_point(&mut rng), 9).and_then(a5::cell_to_lonlat) { Ok(c) => c, Err(_) => continue };
        for turns in [-10_000_000.0f64, -6_000_000.0, 6_000_000.0, 10_000_000.0] {
            let r = [0, 1, 2, 5, 9][i % 5];
            t.emit(lookup_event(LonLat::new(c9.longitude() + 360.0 * turns, c9.latitude()), r, "lon_turns"));
            n += 1;
        }
        t.cut();
    }
    // longitude aliases: the same physical point written with +-360, +-720, +-1080 degrees ("any finite longitude")
    let nalias = if tier == "thorough" { 3000 } else { 400 };
    for i in 0..nalias {
        let p = if i % 4 == 0 { *rng.pick(&specials) } else { random_point(&mut rng) };
        let r = [0, 1, 0, 1, 2, 7, 15, 29][i % 8];
        for k in [-1080.0, -720.0, -360.0, 360.0, 720.0, 1080.0] {
            t.emit(lookup_event(LonLat::new(p.longitude() + k, p.latitude()), r, "lon_alias"));
            n += 1;
        }
        t.cut();
    }
    // the same point through all resolutions, descending then ascending, on one thread ("every point x all resolutions"
    // is the property's own quantifier; it also exposes answers derived from an earlier answer for the same point)
    let nsweep = if tier == "thorough" { 1500 } else { 150 };
    let mut n_sweep = 0u64;
    for i in 0..nsweep {
        let mut p = if i % 3 == 0 { *rng.pick(&specials) } else { random_point(&mut rng) };
        if i % 2 == 0 {
            // move the point next to an edge of its cell at some resolution (overhang of the neighbours)
            let f = 2 + rng.below(8) as i32;
            if let Ok(c) = a5::lonlat_to_cell(p, f) { if let (Ok(cc), Some(ring)) = (a5::cell_to_lonlat(c), ring_ll(c, 1, false)) {
                let v = *rng.pick(&ring); p = towards(cc, v, 0.85 + 0.3 * rng.f64());
                if p.latitude().abs() > 90.0 { continue; }
            } }
        }
        // descending, ascending, and a random order (an answer may be derived from ANY earlier answer for the point)
        let mut order: Vec<i32> = (0..=29).rev().chain(0..=29).collect();
        let mut shuffled: Vec<i32> = (0..=29).collect();
        rng.shuffle(&mut shuffled);
        order.extend(shuffled);
        if i % 2 == 1 {
            // fresh thread, coarse-after-moderate pairs only: res f in 2..9 directly followed by res 0 and 1
            order = vec![]; for f in [2, 3, 4, 5, 6, 7, 8, 9] { order.extend([f, 0, f, 1]); }
        }
        let pp = p;
        let evs: Vec<Value> = std::thread::spawn(move || order.iter().map(|&r| lookup_event(pp, r, "sweep")).collect()).join().unwrap();
        for e in evs { t.emit(e); n_sweep += 1; }
        t.cut();
    }
    n += n_sweep;
    // parallels on which the latitude stage switches formulas (latitude_flags): lookups across them at the fine resolutions
    let mut n_latflag = 0u64;
    for r in [24, 26, 27, 28, 29] {
        for p in lat_flag_points(&mut rng, r) { t.emit(lookup_event(p, r, "lat_flag")); n += 1; n_latflag += 1; }
        t.cut();
    }
    // mass probing guided by the branch hook (see mass_probe): only the HARD lookups are classified and recorded --
    // exactly the cases on which the search's only assumption (A5Lookup: the true cell is among the estimates) is thin
    let (mut hard_all, hist_all, n_mass) = mass_probe(tier, seed);
    let n_hard_total = hard_all.len();
    hard_all.truncate(if tier == "thorough" { 40000 } else { 5000 });
    for (_, res, lon, lat, _, _) in &hard_all {
        let e = lookup_event(LonLat::new(*lon, *lat), *res, "mass_hard");
        branches[(e["branch"].as_u64().unwrap_or(0) as usize).min(4)] += 1;
        t.emit(e);
        n += 1;
        if let Some(e2) = lookupsteps_event(LonLat::new(*lon, *lat), *res) { t.emit(e2); n_steps += 1; }
        t.cut();
    }
    t.finish();
    json!({"files": t.files, "events": t.events, "lookups": n, "lookups_on_flagged_parallels": n_latflag, "lookups_with_step_log": n_steps, "edge_hugging_points": n_hug, "branches_exact_direct_probe_fallback": branches[1..].to_vec(),
           "mass_lookups": n_mass, "mass_hard_cases_found": n_hard_total, "mass_hard_cases_validated": hard_all.len(),
           "mass_winning_probe_histogram_0_26_fallback": hist_all,
           "samples": [lookup_event(LonLat::new(-73.98, 40.75), 11, "sample")]})
}

pub fn gen_c02(tier: &str, seed: u64, out: &str) -> Value {
    let mut rng = Rng::new(seed ^ 0xC02);
    let mut t = Trace::new(out, "c02", 500);
    let exr = if tier == "thorough" { 5 } else { 4 };
    let (mut n_c, mut n_i) = (0u64, 0u64);
    for r in 0..=exr { for id in all_cells(r) { t.emit(centre_event(id)); n_c += 1; t.cut(); } }
    let per = if tier == "thorough" { 20 } else { 2 };
    let specials = special_points();
    for r in (exr + 1)..=29 {
        for face in 0..12u8 { for seg in 0..5usize { for k in 0..per {
            let h = r - 1;
            let s = match k { 0 => 0, 1 => (1u64 << (2 * h)) - 1, _ => rng.next() & ((1u64 << (2 * h)) - 1) };
            let id = serialize(&A5Cell { origin_id: face, segment: seg, s, resolution: r }).unwrap();
            t.emit(centre_event(id)); n_c += 1;
            if k == 2 || (k == 0 && seg == 0) { n_i += interior_events(&mut t, "interior2", id, &mut rng, &[1e-10, 1e-4, 1e-2, 0.5]); }
            t.cut();
        } } }
        for p in &specials { if let Ok(id) = a5::lonlat_to_cell(*p, r) { t.emit(centre_event(id)); n_c += 1; } }
        // positions that are special as numbers (decimal round, next to 2^16 / 2^32 / 2^53)
        let ns = crate::ids::numeric_specials((r - 1) as usize, &mut rng);
        for (i, &s) in ns.iter().enumerate() {
            if tier != "thorough" && (i + r as usize) % 3 != 0 { continue; }
            let id = serialize(&A5Cell { origin_id: rng.below(12) as u8, segment: rng.below(5) as usize, s, resolution: r }).unwrap();
            t.emit(centre_event(id)); n_c += 1;
        }
        t.cut();
    }
    for r in 0..=exr { for _ in 0..(if tier == "thorough" { 60 } else { 8 }) { let id = random_cell(&mut rng, r); n_i += interior_events(&mut t, "interior2", id, &mut rng, &[1e-10, 1e-4, 1e-2, 0.5]); t.cut(); } }
    // hook-guided hard cases: interior points of a known cell whose lookup needed a late probe or fell back
    let (hard, _hist, n_mass) = mass_probe(tier, seed ^ 0x2);
    let mut n_hard = 0u64;
    for (_, res, lon, lat, cell, depth) in hard.iter().filter(|h| h.4 != 0 && h.5 > 0.0).take(if tier == "thorough" { 30000 } else { 4000 }) {
        let p = LonLat::new(*lon, *lat);
        if let (Ok(cd), Some(o)) = (deserialize(*cell), ring_oracle(*cell)) {
            let (class, pm, rm) = classify(*cell, &cd, p, &o);
            let back = catch(|| a5::lonlat_to_cell(p, *res)).ok().and_then(|x| x.ok());
            let info = a5::verif::lookup_info();
            t.emit(json!({"op": "interior2", "id": quads(*cell), "res": res, "p": fmt_ll(p), "corner": false, "depth": format!("{:e}", depth),
                          "class": class, "planar_e15": q15(pm), "ring_e15": q15(rm), "ok": back.is_some(), "back": quads(back.unwrap_or(0)),
                          "back_class": "n/a", "back_planar_e15": 0, "back_ring_e15": 0, "branch": info.branch, "ring_deep": rm > o.allowance + 2.0 * BAND && ring_in_view(&o.ring, p_of(p)), "abslat": lat.abs().floor() as i64}));
            n_hard += 1;
            n_i += 1;
            t.cut();
        }
    }
    let _ = n_mass;
    t.finish();
    json!({"files": t.files, "events": t.events, "centres": n_c, "interior_points": n_i, "hook_guided_hard_interior_points": n_hard, "exhaustive_to_res": exr, "samples": [centre_event(random_cell(&mut rng, 13))]})
}

#[allow(dead_code)]
pub fn lib_contains(cell: &A5Cell, p: LonLat) -> f64 { a5cell_contains_point(cell, p).unwrap_or(f64::NAN) }
