// Trace generators for the ID algebra: C05 (codec), C20 (order), C07 (tree), C09 (uncompact).
use crate::util::*;
use a5::core::serialization::{deserialize, serialize};
use a5::core::utils::A5Cell;
use serde_json::{json, Value};

/// curve positions that are special as NUMBERS rather than as digit strings: multiples of powers of ten (decimal limbs),
/// neighbours of 2^16, 2^24, 2^31, 2^32, 2^53 (narrow integer and floating-point detours)
pub fn numeric_specials(h: usize, rng: &mut Rng) -> Vec<u64> {
    if h == 0 { return vec![]; }
    let mask = if h >= 32 { u64::MAX } else { (1u64 << (2 * h)) - 1 };
    let mut v = vec![];
    for k in [3u32, 4, 6, 9, 12, 15, 18] {
        let p = 10u64.pow(k);
        if p > mask { continue; }
        let m = 1 + rng.below(mask / p);
        v.push(m * p);
        v.push(p);
        v.push((mask / p) * p);
    }
    for j in [8u32, 16, 24, 31, 32, 48, 53] {
        let b = 1u64 << j;
        for x in [b - 1, b, b + 1, (rng.next() & mask & !(b - 1)) | 1, (rng.next() & mask) | (b - 1)] { if x <= mask { v.push(x); } }
    }
    v.sort_unstable();
    v.dedup();
    v
}

fn digit_patterns(h: usize, rng: &mut Rng, nrand: usize) -> Vec<u64> {
    // curve positions with h digits: all-0, all-3, alternating, single digits, first/last only, random
    let mut v = vec![];
    if h == 0 {
        return vec![0];
    }
    let all = |d: u64| (0..h).fold(0u64, |a, _| (a << 2) | d);
    v.push(0);
    v.push(all(3));
    v.push(all(1));
    v.push(all(2));
    v.push((0..h).fold(0u64, |a, k| (a << 2) | if k % 2 == 0 { 0 } else { 1 }));
    v.push((0..h).fold(0u64, |a, k| (a << 2) | if k % 2 == 0 { 1 } else { 0 }));
    v.push((0..h).fold(0u64, |a, k| (a << 2) | if k % 2 == 0 { 3 } else { 0 }));
    v.push((0..h).fold(0u64, |a, k| (a << 2) | if k % 2 == 0 { 2 } else { 3 }));
    for pos in 0..h {
        for d in 1..4u64 {
            v.push(d << (2 * pos));
        }
    }
    for _ in 0..nrand {
        v.push(rng.next() & ((1u64 << (2 * h)) - 1).max(0));
    }
    let mask = (1u64 << (2 * h)) - 1;
    // short random prefix (0..3 digits), then a run of 8, 12, 16, 20 or 24 zeros / threes, then a random tail:
    // the shapes on which word-sized (16- and 32-bit) shortcuts in index arithmetic go wrong
    for plen in 0..4usize { for run in [8usize, 12, 16, 20, 24] { for d in [0u64, 3] {
        if plen + run > h { continue; }
        let mut sv = rng.next() & mask;
        if plen > 0 { // make the prefix non-zero
            let top = 2 * (h - 1); sv |= 1u64 << top; }
        for k in (h - plen - run)..(h - plen) { sv = (sv & !(3u64 << (2 * k))) | (d << (2 * k)); }
        v.push(sv);
    } } }
    // a random prefix, a long run of one digit, a random suffix (and the same with the prefix alone)
    for _ in 0..(nrand + 2) {
        if h < 6 { break; }
        let run = 4 + rng.below((h - 3) as u64) as usize;
        let start = rng.below((h - run + 1) as u64) as usize;
        let d = [0u64, 3, 0, 3, 1, 2][rng.below(6) as usize];
        let mut s = rng.next() & mask;
        for k in start..(start + run).min(h) { s = (s & !(3u64 << (2 * k))) | (d << (2 * k)); }
        v.push(s);
        if start > 0 { v.push(s & !((1u64 << (2 * start)) - 1)); v.push(s | ((1u64 << (2 * start)) - 1)); }
    }
    let ns = numeric_specials(h, rng);
    for _ in 0..(nrand + 2).min(ns.len()) { v.push(*rng.pick(&ns)); }
    v.sort_unstable();
    v.dedup();
    v
}

pub fn codec_event(c: &A5Cell) -> Value {
    let ser = catch(|| serialize(c));
    let (ser_ok, id) = match &ser {
        Ok(Ok(id)) => (true, *id),
        _ => (false, 0),
    };
    let res = catch(|| a5::get_resolution(id)).unwrap_or(-99);
    let des = catch(|| deserialize(id));
    let (deser_ok, cell2) = match &des {
        Ok(Ok(c2)) => (true, c2.clone()),
        _ => (false, A5Cell { origin_id: 0, segment: 0, s: 0, resolution: -1 }),
    };
    let reser = catch(|| serialize(&cell2));
    let (reser_ok, id2) = match &reser {
        Ok(Ok(i)) => (true, *i),
        _ => (false, 0),
    };
    json!({"op": "codec", "cell": cell_json(c), "ser_ok": ser_ok, "id": quads(id), "res": res,
           "deser_ok": deser_ok, "cell2": cell_json(&cell2), "reser_ok": reser_ok, "id2": quads(id2)})
}

pub fn decode_event(id: u64) -> Value {
    let res = catch(|| a5::get_resolution(id)).unwrap_or(-99);
    let des = catch(|| deserialize(id));
    let (deser_ok, cell) = match &des {
        Ok(Ok(c2)) => (true, c2.clone()),
        _ => (false, A5Cell { origin_id: 0, segment: 0, s: 0, resolution: -1 }),
    };
    let (reser_ok, id2) = if deser_ok {
        match catch(|| serialize(&cell)) {
            Ok(Ok(i)) => (true, i),
            _ => (false, 0),
        }
    } else {
        (false, 0)
    };
    json!({"op": "decode", "id": quads(id), "res": res, "deser_ok": deser_ok, "cell": cell_json(&cell),
           "reser_ok": reser_ok, "id2": quads(id2)})
}

/// "every ID returned by any API call is in canonical form": hierarchy and list calls fed with a decodable but
/// non-canonical ID (stray bits below the marker, or next to the resolution-0/1 markers)
pub fn canonout_event(f: &str, id: u64, r: i32, dflt: bool) -> Value {
    let f2 = f.to_string();
    let res = catch(move || -> Result<Vec<u64>, String> {
        Ok(match f2.as_str() {
            "cell_to_parent" => vec![a5::cell_to_parent(id, if dflt { None } else { Some(r) })?],
            "cell_to_children" => a5::cell_to_children(id, if dflt { None } else { Some(r) })?,
            "uncompact" => a5::uncompact(&[id], r)?,
            "compact" => a5::compact(&[id])?,
            _ => vec![],
        })
    });
    let (outcome, outs) = match res { Ok(Ok(v)) => ("ok", v), Ok(Err(_)) => ("err", vec![]), Err(_) => ("panic", vec![]) };
    json!({"op": "canonout", "fn": f, "id": quads(id), "r": r, "dflt": dflt, "outcome": outcome, "outs": quads_list(&outs[..outs.len().min(64)]), "n": outs.len()})
}

pub fn hexfmt_event(v: u64) -> Value {
    let s = a5::u64_to_hex(v);
    let back = catch(|| a5::hex_to_u64(&s));
    let (ok, b) = match back {
        Ok(Ok(b)) => (true, b),
        _ => (false, 0),
    };
    json!({"op": "hexfmt", "id": quads(v), "str": str_codes(&s), "back_ok": ok, "back": quads(b)})
}

pub fn hexparse_event(s: &str) -> Value {
    let r = catch(|| a5::hex_to_u64(s));
    let (outcome, v) = match r {
        Ok(Ok(v)) => ("ok", v),
        Ok(Err(_)) => ("err", 0),
        Err(_) => ("panic", 0),
    };
    json!({"op": "hexparse", "str": str_codes(s), "outcome": outcome, "id": quads(v)})
}

/// layout-built ID, independent of serialize(): top 6 bits, h digits, marker
fn layout_id(top: u64, res: i32, s: u64) -> u64 {
    if res < 0 {
        return 0;
    }
    let h = if res >= 2 { (res - 1) as u32 } else { 0 };
    let marker_bit = if res == 0 { 57 } else if res == 1 { 56 } else { 57 - 2 * h };
    let mut id = top << 58;
    if h > 0 {
        id |= s << (58 - 2 * h);
    }
    id | (1u64 << marker_bit)
}

pub fn gen_c05(tier: &str, seed: u64, out: &str, mc_replay: Option<&str>) -> Value {
    let mut rng = Rng::new(seed ^ 0xC05);
    let mut t = Trace::new(out, "c05", 1500);
    let exhaustive_to = if tier == "thorough" { 8 } else { 5 };
    let mut n_codec = 0u64;
    let mut ids_seen: Vec<u64> = vec![];
    // world cell
    t.emit(codec_event(&A5Cell { origin_id: 0, segment: 0, s: 0, resolution: -1 }));
    // exhaustive low resolutions
    for res in 0..=exhaustive_to {
        for face in 0..12u8 {
            let segs: Vec<usize> = if res == 0 { vec![0] } else { (0..5).collect() };
            for seg in segs {
                let h = if res >= 2 { res - 1 } else { 0 };
                for s in 0..(1u64 << (2 * h)) {
                    let c = A5Cell { origin_id: face, segment: seg, s, resolution: res };
                    let e = codec_event(&c);
                    if res <= 3 || s % 97 == 0 {
                        ids_seen.push(from_quads(&e["id"]));
                    }
                    t.emit(e);
                    n_codec += 1;
                    t.cut();
                }
            }
        }
    }
    // deep resolutions: every face x segment x digit pattern
    let nrand = if tier == "thorough" { 24 } else { 3 };
    for res in (exhaustive_to + 1)..=29 {
        let h = (res - 1) as usize;
        let pats = digit_patterns(h, &mut rng, nrand);
        for face in 0..12u8 {
            for seg in 0..5usize {
                // patterns rotate over faces/segments in the quick tier, all of them in thorough
                for (k, &s) in pats.iter().enumerate() {
                    if tier != "thorough" && (k + face as usize * 5 + seg) % 6 != 0 {
                        continue;
                    }
                    let c = A5Cell { origin_id: face, segment: seg, s, resolution: res };
                    let e = codec_event(&c);
                    if k % 5 == 0 {
                        ids_seen.push(from_quads(&e["id"]));
                    }
                    t.emit(e);
                    n_codec += 1;
                    t.cut();
                }
            }
        }
    }
    // cells chosen by the model checker (MC_Ids dumps its pattern cells)
    let mut n_replayed = 0u64;
    if let Some(p) = mc_replay {
        if let Ok(txt) = std::fs::read_to_string(p) {
            for line in txt.lines() {
                let v: Value = match serde_json::from_str(line) {
                    Ok(v) => v,
                    Err(_) => continue,
                };
                if v["kind"] == "cell" {
                    t.emit(codec_event(&cell_from_json(&v["cell"])));
                    n_replayed += 1;
                } else if v["kind"] == "str" {
                    let s: String = v["codes"].as_array().unwrap().iter()
                        .map(|c| { let c = c.as_u64().unwrap() as u32; if c == 255 { 'é' } else { char::from_u32(c).unwrap() } }).collect();
                    t.emit(hexparse_event(&s));
                    n_replayed += 1;
                } else if v["kind"] == "id" {
                    let id = from_quads(&v["id"]);
                    t.emit(decode_event(id));
                    t.emit(hexfmt_event(id));
                    n_replayed += 1;
                }
                t.cut();
            }
        }
    }
    // layout-built IDs through deserialize (canonical ones must round-trip; others: recorded)
    let mut n_decode = 0u64;
    for res in 0..=29 {
        let h = if res >= 2 { (res - 1) as usize } else { 0 };
        let pats = digit_patterns(h, &mut rng, 2);
        for top in 0..64u64 {
            for (k, &s) in pats.iter().enumerate() {
                if (k + top as usize) % 4 != 0 && tier != "thorough" {
                    continue;
                }
                t.emit(decode_event(layout_id(top, res, s)));
                n_decode += 1;
                t.cut();
            }
        }
    }
    // API calls on aliases: whatever is returned must be canonical
    let mut n_canon = 0u64;
    for res in 0..=29 {
        for k in 0..(if tier == "thorough" { 40 } else { 6 }) {
            let c = random_cell(&mut rng, res);
            // bits that the resolution scan never looks at: even positions below the marker; bit 57 above the res-1 marker
            let marker: u64 = if res == 0 { 57 } else if res == 1 { 56 } else { 1 + 2 * (29 - res as u64) };
            let mut stray = 0u64;
            for b in (0..marker).step_by(2) { if rng.chance(0.3) { stray |= 1 << b; } }
            if res == 1 && k % 2 == 0 { stray |= 1 << 57; }
            if stray == 0 { stray = 1; }
            let x = c | stray;
            if a5::get_resolution(x) != res { continue; }
            for (f, r, dflt) in [("cell_to_parent", res, false), ("cell_to_parent", res - 1, false), ("cell_to_parent", 0, true),
                                 ("cell_to_children", res, false), ("cell_to_children", (res + 1).min(29), false), ("cell_to_children", 0, true),
                                 ("uncompact", res, false), ("uncompact", (res + 1).min(29), false), ("compact", 0, false)] {
                t.emit(canonout_event(f, x, r, dflt));
                n_canon += 1;
            }
            t.cut();
        }
    }
    // hex: boundaries, single bits, every recorded cell pattern, random
    let mut vals: Vec<u64> = vec![0, 1, 9, 10, 15, 16, 255, 256, u64::MAX, u64::MAX - 1, 1 << 63, (1 << 63) - 1,
                                  0x0123456789abcdef, 0xfedcba9876543210, 0xfc00000000000000, 0x0400000000000000];
    for b in 0..64 {
        vals.push(1u64 << b);
        vals.push((1u64 << b).wrapping_sub(1));
        vals.push(!(1u64 << b));
    }
    vals.extend(ids_seen.iter().copied());
    let nr = if tier == "thorough" { 20000 } else { 2000 };
    for _ in 0..nr {
        let sh = rng.below(64);
        vals.push(rng.next() >> sh);
    }
    let mut n_hex = 0u64;
    for v in &vals {
        t.emit(hexfmt_event(*v));
        n_hex += 1;
        t.cut();
    }
    // hex parse: boundary lengths and hostile strings
    let mut strs: Vec<String> = vec![
        "".into(), "0".into(), "00".into(), "f".into(), "F".into(), "g".into(), " 1".into(), "1 ".into(), "+".into(), "-".into(),
        "+1".into(), "-1".into(), "+0".into(), "-0".into(), "0x1".into(), "0X1f".into(), "++1".into(), "1+".into(), "é".into(), "1é".into(),
        "ffffffffffffffff".into(), "10000000000000000".into(), "0ffffffffffffffff".into(), "00000000000000000001".into(),
        "fffffffffffffffff".into(), "FFFFFFFFFFFFFFFF".into(), "+ffffffffffffffff".into(), "+10000000000000000".into(),
        "123456789abcdef01".into(), "123456789abcdef0".into(), "１".into(), "\u{0661}".into(), "1_0".into(), "\n".into(), "1\n".into(),
        "ffffffffffffffffffffffffffffffff".into(), "100000000000000000000000000000000".into(),
    ];
    let alphabet: Vec<char> = "0123456789abcdefABCDEF+-xX gGzé_ ".chars().collect();
    let ns = if tier == "thorough" { 20000 } else { 2000 };
    for _ in 0..ns {
        let len = match rng.below(10) { 0 => 15, 1 => 16, 2 => 17, 3 => 18, 4 => 33, _ => rng.below(6) as usize };
        let hexonly = rng.chance(0.6);
        let s: String = (0..len).map(|_| if hexonly { alphabet[rng.below(22) as usize] } else { *rng.pick(&alphabet) }).collect();
        strs.push(s);
    }
    // one foreign character at every position of strings of the boundary lengths (byte lengths 8, 15..17, 32, 33)
    for len in [8usize, 15, 16, 17, 32, 33] {
        for pos in 0..len {
            for (k, sep) in ['+', '-', ' ', 'x', 'é', 'g', 'F'].iter().enumerate() {
                if tier != "thorough" && (pos + k + len) % 3 != 0 && *sep != '+' && *sep != 'é' { continue; }
                let mut st = String::new();
                let mut bytes = 0;
                let mut i = 0;
                while bytes < len {
                    if i == pos { st.push(*sep); bytes += sep.len_utf8(); } else { st.push(char::from_digit(((i * 7 + len) % 16) as u32, 16).unwrap()); bytes += 1; }
                    i += 1;
                }
                strs.push(st);
            }
        }
    }
    // digit strings whose LENGTH sits around 2^8, 2^9, 2^10 (counters of digits are often narrow), with and without
    // leading zeros; all are wider than 64 bits unless they are all zeros
    for len in [250usize, 255, 256, 257, 258, 264, 271, 272, 273, 511, 512, 513, 520, 528, 1023, 1024, 1025, 1040] {
        let digits: String = (0..len).map(|i| char::from_digit(((i * 11 + len) % 15 + 1) as u32, 16).unwrap()).collect();
        strs.push(digits.clone());
        strs.push(format!("1{}", "0".repeat(len - 1)));
        strs.push(format!("{}{}", "7".repeat(len - 16), "2a80000000000000"));
        strs.push(format!("{}{}", "0".repeat(len - 3), "abc"));
    }
    let mut n_parse = 0u64;
    for s in &strs {
        t.emit(hexparse_event(s));
        n_parse += 1;
        t.cut();
    }
    t.finish();
    json!({"files": t.files, "events": t.events, "codec": n_codec, "decode": n_decode, "alias_calls": n_canon, "hexfmt": n_hex, "hexparse": n_parse,
           "mc_replayed": n_replayed, "exhaustive_to_res": exhaustive_to,
           "samples": [codec_event(&A5Cell{origin_id: 7, segment: 3, s: 0x2d, resolution: 4}), hexparse_event("10000000000000000")]})
}

// ---------------------------------------------------------------- C20

fn ancestors(id: u64, r: i32) -> Vec<u64> {
    (1..=r).map(|k| a5::cell_to_parent(id, Some(k)).unwrap_or(u64::MAX)).collect()
}

pub fn ancpair_event(a: u64, b: u64, r: i32, depth: i32) -> Value {
    let (a, b) = if a <= b { (a, b) } else { (b, a) };
    let has_desc = a != b && r + depth <= 29 && depth > 0;
    let (mx, mn) = if has_desc {
        let da = a5::cell_to_children(a, Some(r + depth)).unwrap_or_default();
        let db = a5::cell_to_children(b, Some(r + depth)).unwrap_or_default();
        (da.iter().copied().max().unwrap_or(0), db.iter().copied().min().unwrap_or(0))
    } else {
        (0, 0)
    };
    json!({"op": "ancpair", "a": quads(a), "b": quads(b), "r": r, "lt": a < b,
           "anc_a": quads_list(&ancestors(a, r)), "anc_b": quads_list(&ancestors(b, r)),
           "has_desc": has_desc, "max_desc_a": quads(mx), "min_desc_b": quads(mn)})
}

fn run_entries(t: &mut Trace, ids: &mut Vec<u64>) -> u64 {
    // mixed-resolution list (res >= 1), sorted AS u64, with the code's own ancestors
    ids.sort_unstable();
    ids.dedup();
    t.emit(json!({"op": "reset"}));
    let mut n = 0;
    for chunk in ids.chunks(64) {
        let entries: Vec<Value> = chunk.iter().map(|&id| {
            let r = res_of(id);
            json!({"id": quads(id), "anc": quads_list(&ancestors(id, r))})
        }).collect();
        n += entries.len() as u64;
        t.emit(json!({"op": "run", "entries": entries}));
    }
    t.cut();
    n
}

pub fn random_cell(rng: &mut Rng, res: i32) -> u64 {
    let face = rng.below(12) as u8;
    let seg = rng.below(5) as usize;
    let h = if res >= 2 { res - 1 } else { 0 };
    let s = if h == 0 { 0 } else { rng.next() & ((1u64 << (2 * h)) - 1) };
    serialize(&A5Cell { origin_id: face, segment: if res == 0 { 0 } else { seg }, s, resolution: res }).unwrap()
}

pub fn gen_c20(tier: &str, seed: u64, out: &str) -> Value {
    let mut rng = Rng::new(seed ^ 0xC20);
    let mut t = Trace::new(out, "c20", 600);
    let maxr = if tier == "thorough" { 7 } else { 5 };
    // (1) sorted columns per resolution: u64 order = quad order; consecutive pairs monotone
    let mut n_sorted = 0u64;
    let mut n_pairs = 0u64;
    for r in 1..=maxr {
        let mut ids = all_cells(r);
        ids.sort_unstable();
        t.emit(json!({"op": "reset"}));
        for chunk in ids.chunks(256) {
            t.emit(json!({"op": "sorted", "ids": quads_list(chunk)}));
            n_sorted += chunk.len() as u64;
        }
        t.cut();
        if r >= 2 {
            for w in ids.windows(2) {
                // consecutive pairs: monotone on these implies monotone on all pairs
                t.emit(ancpair_event(w[0], w[1], r, if r <= 3 { 2 } else { 1 }));
                t.cut();
                n_pairs += 1;
            }
        }
    }
    // (2) mixed-resolution contiguity, exhaustive r = 1..maxr-? (all cells of res 1..R in one list)
    let mixr = if tier == "thorough" { 6 } else { 5 };
    let mut mixed: Vec<u64> = vec![];
    for r in 1..=mixr {
        mixed.extend(all_cells(r));
    }
    let n_mixed = run_entries(&mut t, &mut mixed);
    // (3) deep: local mixed lists around pattern / random cells, straddling parent boundaries
    let ndeep = if tier == "thorough" { 400 } else { 90 };
    let mut n_deep = 0u64;
    for i in 0..ndeep {
        let r = 6 + (i % 22) as i32; // 6..27
        let mut c = random_cell(&mut rng, r);
        if i % 3 == 0 {
            // position ...0333 / ...1000 straddling a parent boundary at a random level
            let cell = deserialize(c).unwrap();
            let lvl = 1 + rng.below((r - 1) as u64) as u32;
            let mask = (1u64 << (2 * lvl)) - 1;
            let s = (cell.s & !mask) | (mask >> 2); // ...0333
            let s = if i % 2 == 0 { s } else { (cell.s & !mask) | (1u64 << (2 * (lvl - 1))) };
            c = serialize(&A5Cell { s, ..cell }).unwrap();
        }
        let up = if tier == "thorough" { 3 } else { 2 };
        let top = a5::cell_to_parent(c, Some((r - up).max(1))).unwrap();
        let mut list = vec![];
        for d in (r - up).max(1)..=(r + 2).min(29) {
            list.extend(a5::cell_to_children(top, Some(d)).unwrap());
        }
        // plus neighbours of the subtree in ID order: the next and previous subtree roots
        n_deep += run_entries(&mut t, &mut list);
    }
    // (4) deep pairs
    let npairs = if tier == "thorough" { 100000 } else { 6000 };
    for i in 0..npairs {
        let r = 2 + (i % 28) as i32;
        let a = random_cell(&mut rng, r);
        let b = match i % 4 {
            0 => random_cell(&mut rng, r),
            1 => { // adjacent position
                let c = deserialize(a).unwrap();
                let max = (1u64 << (2 * (r - 1))) - 1;
                serialize(&A5Cell { s: if c.s < max { c.s + 1 } else { c.s - 1 }, ..c }).unwrap()
            }
            2 => { // straddle a parent boundary at some level
                let c = deserialize(a).unwrap();
                let lvl = 1 + rng.below((r - 1) as u64) as u32;
                let mask = (1u64 << (2 * lvl)) - 1;
                let s0 = c.s | mask;
                let max = (1u64 << (2 * (r - 1))) - 1;
                let s1 = if s0 < max { s0 + 1 } else { s0 - 1 };
                let a2 = serialize(&A5Cell { s: s0, ..c.clone() }).unwrap();
                let b2 = serialize(&A5Cell { s: s1, ..c }).unwrap();
                t.emit(ancpair_event(a2, b2, r, (29 - r).min(1 + (i % 4) as i32)));
                t.cut();
                n_pairs += 1;
                continue;
            }
            _ => { // same face, other segment
                let c = deserialize(a).unwrap();
                serialize(&A5Cell { segment: (c.segment + 1 + rng.below(4) as usize) % 5, ..c }).unwrap()
            }
        };
        t.emit(ancpair_event(a, b, r, (29 - r).min(1 + (i % 4) as i32)));
        t.cut();
        n_pairs += 1;
    }
    t.finish();
    json!({"files": t.files, "events": t.events, "sorted_ids": n_sorted, "pairs": n_pairs, "mixed_entries": n_mixed, "deep_entries": n_deep,
           "exhaustive_to_res": maxr, "samples": [ancpair_event(random_cell(&mut rng, 9), random_cell(&mut rng, 9), 9, 2)]})
}

// ---------------------------------------------------------------- C07

pub fn children_event(id: u64, target: Option<i32>) -> Value {
    let r = res_of(id);
    let tr = target.unwrap_or(r + 1);
    let res = catch(|| a5::cell_to_children(id, target));
    let (ok, list) = match res {
        Ok(Ok(l)) => (true, l),
        _ => (false, vec![]),
    };
    let parents: Vec<u64> = list.iter().map(|&c| catch(|| a5::cell_to_parent(c, Some(r))).ok().and_then(|x| x.ok()).unwrap_or(u64::MAX)).collect();
    let ress: Vec<i32> = list.iter().map(|&c| res_of(c)).collect();
    json!({"op": "children", "id": quads(id), "target": tr, "dflt": target.is_none(), "ok": ok,
           "list": quads_list(&list), "parents": quads_list(&parents), "ress": ress})
}

/// a large expansion (beyond the 4^8 fan-out the property names) summarised by the harness: length, strict order of the
/// returned IDs, how many entries have the wrong resolution / the wrong ancestor, and the extremes
pub fn childrenbig_event(id: u64, target: i32) -> Value {
    let r = res_of(id);
    let list = catch(|| a5::cell_to_children(id, Some(target))).ok().and_then(|x| x.ok());
    let (ok, list) = match list { Some(l) => (true, l), None => (false, vec![]) };
    let wrong_res = list.iter().filter(|&&c| res_of(c) != target).count();
    let wrong_parent = list.iter().filter(|&&c| a5::cell_to_parent(c, Some(r)).ok() != Some(id)).count();
    let mut sorted = list.clone(); sorted.sort_unstable(); let before = sorted.len(); sorted.dedup();
    json!({"op": "childrenbig", "id": quads(id), "target": target, "ok": ok, "len_exp4": (list.len() as f64).log(4.0).round() as i64,
           "len_is_pow4": list.len() > 0 && list.len().is_power_of_two() && list.len().trailing_zeros() % 2 == 0,
           "wrong_res": wrong_res, "wrong_parent": wrong_parent, "dups": before - sorted.len(),
           "min": quads(*sorted.first().unwrap_or(&0)), "max": quads(*sorted.last().unwrap_or(&0))})
}

/// the whole ancestor chain of a cell: direct[a] = cell_to_parent(c, a) for every a in -1..=res, and step[a] =
/// cell_to_parent(direct[a], a - 1): one event per cell instead of one per (cell, target) pair
pub fn ancestors_event(c: u64) -> Value {
    let r = res_of(c);
    let get = |x: u64, a: i32| catch(|| a5::cell_to_parent(x, Some(a))).ok().and_then(|v| v.ok());
    let direct: Vec<Option<u64>> = (-1..=r).map(|a| get(c, a)).collect();
    let step: Vec<Option<u64>> = (0..=r).map(|a| direct[(a + 1) as usize].and_then(|x| get(x, a - 1))).collect();
    let ok = direct.iter().all(|x| x.is_some()) && step.iter().all(|x| x.is_some());
    json!({"op": "ancestors", "c": quads(c), "ok": ok,
           "direct": quads_list(&direct.iter().map(|x| x.unwrap_or(u64::MAX)).collect::<Vec<_>>()),
           "step": quads_list(&step.iter().map(|x| x.unwrap_or(u64::MAX)).collect::<Vec<_>>())})
}

pub fn parentcomp_event(c: u64, a: i32, b: i32) -> Value {
    let pa = catch(|| a5::cell_to_parent(c, Some(a))).ok().and_then(|x| x.ok());
    let pb = catch(|| a5::cell_to_parent(c, Some(b))).ok().and_then(|x| x.ok());
    let pab = pa.and_then(|p| catch(|| a5::cell_to_parent(p, Some(b))).ok().and_then(|x| x.ok()));
    json!({"op": "parentcomp", "c": quads(c), "a": a, "b": b, "ok_a": pa.is_some(), "ok_b": pb.is_some(), "ok_ab": pab.is_some(),
           "pa": quads(pa.unwrap_or(0)), "pb": quads(pb.unwrap_or(0)), "pab": quads(pab.unwrap_or(0))})
}

pub fn childcomp_event(c: u64, m: i32, r2: i32) -> Value {
    let mut ok = true;
    let direct = a5::cell_to_children(c, Some(r2)).unwrap_or_else(|_| { ok = false; vec![] });
    let mid = a5::cell_to_children(c, Some(m)).unwrap_or_else(|_| { ok = false; vec![] });
    let mut via = vec![];
    for k in mid {
        via.extend(a5::cell_to_children(k, Some(r2)).unwrap_or_else(|_| { ok = false; vec![] }));
    }
    json!({"op": "childcomp", "c": quads(c), "m": m, "r2": r2, "ok": ok, "via": quads_list(&via), "direct": quads_list(&direct)})
}

fn world_event() -> Value {
    let res0 = a5::get_res0_cells();
    let list = res0.clone().unwrap_or_default();
    let parents: Vec<u64> = list.iter().map(|&c| a5::cell_to_parent(c, None).unwrap_or(u64::MAX)).collect();
    let c = a5::cell_to_lonlat(0).ok();
    json!({"op": "world", "res0_ok": res0.is_ok(), "res0": quads_list(&list), "parents_of_res0": quads_list(&parents),
           "children_default": quads_list(&a5::cell_to_children(0, None).unwrap_or_default()),
           "self_children": quads_list(&a5::cell_to_children(0, Some(-1)).unwrap_or_default()),
           "world_res": a5::get_resolution(0),
           "lookup_minus1": quads(a5::lonlat_to_cell(a5::LonLat::new(12.0, 34.0), -1).unwrap_or(u64::MAX)),
           "centre_is_origin": c.map(|p| p.longitude() == 0.0 && p.latitude() == 0.0).unwrap_or(false),
           "boundary_len": a5::cell_to_boundary(0, None).map(|b| b.len() as i64).unwrap_or(-1),
           "parent_of_world_ok": a5::cell_to_parent(0, None).is_ok()})
}

pub fn gen_c07(tier: &str, seed: u64, out: &str) -> Value {
    let mut rng = Rng::new(seed ^ 0xC07);
    let mut t = Trace::new(out, "c07", 400);
    t.emit(world_event());
    let exr = if tier == "thorough" { 6 } else { 4 };
    let mut n_children = 0u64;
    let mut n_comp = 0u64;
    // exhaustive: every cell r <= exr (and the world cell) x targets res..res+3, default target
    let mut level: Vec<u64> = vec![0];
    for r in -1..=exr {
        for (i, &c) in level.iter().enumerate() {
            let maxd = if r <= 2 { 3 } else if i % 4 == 0 { 3 } else { 1 };
            for d in 0..=maxd {
                t.emit(children_event(c, Some(r + d)));
                n_children += 1;
            }
            t.emit(children_event(c, None));
            n_children += 1;
            if r >= 0 {
                for a in (-1..=r).rev() {
                    let b = if a > -1 { rng.range(-1, a as i64) as i32 } else { -1 };
                    t.emit(parentcomp_event(c, a, b));
                    n_comp += 1;
                    if r > 3 { break; }
                }
            }
            if i % 3 == 0 || r < 3 {
                t.emit(childcomp_event(c, r + 1, r + 2));
                t.emit(childcomp_event(c, r + 2, r + 3));
                n_comp += 2;
            }
            t.cut();
        }
        // next level = children of all cells of this level, via the library
        let mut next = vec![];
        for &c in &level {
            next.extend(a5::cell_to_children(c, None).unwrap());
        }
        // partition: sorted as u64, must be strictly increasing, canonical, and exactly NumCells(r+1) many
        let mut sorted = next.clone();
        sorted.sort_unstable();
        t.emit(json!({"op": "reset"}));
        for chunk in sorted.chunks(256) {
            t.emit(json!({"op": "level", "res": r + 1, "ids": quads_list(chunk)}));
        }
        t.emit(json!({"op": "levelend", "res": r + 1, "count": sorted.len()}));
        t.cut();
        level = next;
    }
    // one more level of partition only (cheap): exr+2
    {
        let r = exr + 1;
        let mut next = vec![];
        for &c in &level {
            next.extend(a5::cell_to_children(c, None).unwrap());
        }
        next.sort_unstable();
        t.emit(json!({"op": "reset"}));
        for chunk in next.chunks(256) {
            t.emit(json!({"op": "level", "res": r + 1, "ids": quads_list(chunk)}));
        }
        t.emit(json!({"op": "levelend", "res": r + 1, "count": next.len()}));
        t.cut();
    }
    // digit-pattern cells at every resolution (first / last position of a quintant, alternating, single digits):
    // children (default and explicit), parents, compositions
    for r in 2..=29i32 {
        let pats = digit_patterns((r - 1) as usize, &mut rng, 1);
        for (k, &sp) in pats.iter().enumerate() {
            // quick tier: a fifth of the patterns at most resolutions, all of them at the deep end (res >= 26)
            if tier != "thorough" && r < 26 && k >= 8 && (k + r as usize) % 5 != 0 { continue; }
            let face = ((k * 7 + r as usize) % 12) as u8;
            let seg = (k + r as usize) % 5;
            let c = serialize(&A5Cell { origin_id: face, segment: seg, s: sp, resolution: r }).unwrap();
            if r < 29 { t.emit(children_event(c, None)); n_children += 1; }
            for d in [1, 2, 4] { if r + d <= 29 { t.emit(children_event(c, Some(r + d))); n_children += 1; } }
            t.emit(parentcomp_event(c, r - 1, (r - 3).max(-1)));
            t.emit(parentcomp_event(c, r, 1.min(r)));
            t.emit(ancestors_event(c));
            if r + 2 <= 29 { t.emit(childcomp_event(c, r + 1, r + 2)); }
            n_comp += 3;
            t.cut();
        }
    }
    // a few large expansions (4^9, 4^10 and, thorough, 4^11 children): summarised, not listed
    for (k, d) in [9, 9, 9, 10, 9, 10, 11, 11].iter().enumerate() {
        if *d == 11 && tier != "thorough" { continue; }
        let r = 2 + rng.below((27 - d) as u64) as i32;
        let c = if k % 2 == 0 { random_cell(&mut rng, r) } else { serialize(&A5Cell { origin_id: 11, segment: (k % 5), s: (1u64 << (2 * (r - 1))) - 1, resolution: r }).unwrap() };
        t.emit(childrenbig_event(c, r + d));
        n_children += 1;
        t.cut();
    }
    // deep: pattern + random cells to r = 29
    let ndeep = if tier == "thorough" { 6000 } else { 700 };
    for i in 0..ndeep {
        let r = (i % 31) as i32 - 1; // -1..29
        let c = if r == -1 { 0 } else { random_cell(&mut rng, r) };
        let maxd = if i % 50 == 0 && tier == "thorough" { 8 } else { 4 };
        let d = rng.range(0, maxd.min((29 - r) as i64)) as i32;
        if !(r == -1 && d > 5) {
            t.emit(children_event(c, Some(r + d)));
            n_children += 1;
        }
        if r < 29 {
            t.emit(children_event(c, None));
            n_children += 1;
        }
        if r >= 0 {
            let a = rng.range(-1, r as i64) as i32;
            let b = rng.range(-1, a as i64) as i32;
            t.emit(parentcomp_event(c, a, b));
            t.emit(parentcomp_event(c, r, b));
            n_comp += 2;
        }
        if r + 3 <= 29 {
            let m = r + rng.range(0, 2) as i32;
            let r2 = m + rng.range(0, 2) as i32;
            if !(r == -1 && r2 > 3) {
                t.emit(childcomp_event(c, m, r2.min(29)));
                n_comp += 1;
            }
        }
        t.cut();
    }
    t.finish();
    json!({"files": t.files, "events": t.events, "children_calls": n_children, "composition_checks": n_comp,
           "exhaustive_to_res": exr, "partition_to_res": exr + 2,
           "samples": [children_event(random_cell(&mut rng, 11), Some(12)), parentcomp_event(random_cell(&mut rng, 8), 5, 1)]})
}

// ---------------------------------------------------------------- C09

pub fn uncompact_event(cells: &[u64], target: i32) -> Value {
    about_to("uncompact", json!({"cells": quads_list(&cells[..cells.len().min(64)]), "ncells": cells.len(), "target": target}));
    let r = catch(|| a5::uncompact(cells, target));
    done();
    let (outcome, mut out) = match r {
        Ok(Ok(v)) => ("ok", v),
        Ok(Err(_)) => ("err", vec![]),
        Err(_) => ("panic", vec![]),
    };
    // an answer far longer than the honest one is cut (the relation rejects it on its length alone): a runaway answer
    // must not take the recorder down with it
    let honest_total = cells.iter().fold(0u64, |a, &c| a.saturating_add(honest_fanout(res_of(c), target)));
    if out.len() as u64 > honest_total.saturating_add(16) { out.truncate((honest_total + 16) as usize); out.shrink_to_fit(); }
    // the code's own ancestor of every output at the resolution of the input whose block it is in
    let mut par = vec![];
    let mut idx = 0usize;
    'outer: for &c in cells {
        let rc = res_of(c);
        let n = honest_fanout(rc, target);
        for _ in 0..n {
            if idx >= out.len() {
                break 'outer;
            }
            par.push(catch(|| a5::cell_to_parent(out[idx], Some(rc))).ok().and_then(|x| x.ok()).unwrap_or(u64::MAX));
            idx += 1;
        }
    }
    while par.len() < out.len() {
        par.push(u64::MAX);
    }
    json!({"op": "uncompact", "cells": quads_list(cells), "target": target, "outcome": outcome,
           "out": quads_list(&out), "par": quads_list(&par)})
}

pub fn honest_fanout(r: i32, target: i32) -> u64 {
    if target < r {
        return 0;
    }
    let mut n = 1u64;
    let mut k = r;
    while k < target {
        n = n.saturating_mul(if k == -1 { 12 } else if k == 0 { 5 } else { 4 });
        k += 1;
    }
    n
}

pub fn gen_c09(tier: &str, seed: u64, out: &str, mc_replay: Option<&str>, fixtures: bool) -> Value {
    let mut rng = Rng::new(seed ^ 0xC09);
    let mut t = Trace::new(out, "c09", 300);
    let mut n = 0u64;
    let mut n_err = 0u64;
    let mut n_replayed = 0u64;
    let cap: u64 = if tier == "thorough" { 65536 } else { 4096 };
    // lists chosen by the model checker (MC_Uncompact): cells as descriptions, target
    if let Some(p) = mc_replay {
        if let Ok(txt) = std::fs::read_to_string(p) {
            for line in txt.lines() {
                let v: Value = match serde_json::from_str(line) { Ok(v) => v, Err(_) => continue };
                if v["kind"] != "uncompact" { continue; }
                let cells: Vec<u64> = v["cells"].as_array().unwrap().iter().map(|c| serialize(&cell_from_json(c)).unwrap()).collect();
                let target = v["target"].as_i64().unwrap() as i32;
                t.emit(uncompact_event(&cells, target));
                n += 1; n_replayed += 1;
                t.cut();
            }
        }
    }
    if fixtures {
        if let Ok(txt) = std::fs::read_to_string("/repo/tests/fixtures/compact.json") {
            if let Ok(v) = serde_json::from_str::<Value>(&txt) {
                let mut lists: Vec<Vec<u64>> = vec![];
                collect_hex_lists(&v, &mut lists);
                for l in lists.iter().take(if tier == "thorough" { 400 } else { 60 }) {
                    if l.is_empty() { continue; }
                    let maxr = l.iter().map(|&c| res_of(c)).max().unwrap();
                    let total: u64 = l.iter().map(|&c| honest_fanout(res_of(c), maxr)).sum();
                    if total <= cap && l.len() <= 3000 {
                        t.emit(uncompact_event(l, maxr));
                        n += 1;
                        if maxr > 0 {
                            t.emit(uncompact_event(l, maxr - 1));
                            n += 1;
                        }
                        t.cut();
                    }
                }
            }
        }
    }
    // constant and almost constant lists whose length sits around 2^8 and 2^9 (repeat counters are often narrow)
    for (i, k) in [255usize, 256, 257, 260, 300, 511, 512, 513].iter().enumerate() {
        let r = [3, 9, 0, 17, 29, 1, 12, 5][i];
        let c = random_cell(&mut rng, r);
        let other = random_cell(&mut rng, r);
        t.emit(uncompact_event(&vec![c; *k], r));
        let mut l = vec![other]; l.extend(vec![c; *k]); l.push(other);
        t.emit(uncompact_event(&l, (r + 1).min(29)));
        n += 2;
        t.cut();
    }
    // runs of consecutive neighbours, intact and perturbed in place (swap, foreign cell, duplicate, deletion)
    let nruns = if tier == "thorough" { 1500 } else { 240 };
    for i in 0..nruns {
        let cells = crate::compact::run_list(&mut rng, (i % 6) as u64);
        let maxr = cells.iter().map(|&c| res_of(c)).max().unwrap();
        for target in [maxr, (maxr + 1).min(29)] {
            let total: u64 = cells.iter().map(|&c| honest_fanout(res_of(c), target)).fold(0u64, |a, b| a.saturating_add(b));
            if total > cap { continue; }
            t.emit(uncompact_event(&cells, target));
            n += 1;
        }
        t.cut();
    }
    let cases = if tier == "thorough" { 8000 } else { 800 };
    for i in 0..cases {
        let len = 1 + rng.below(5) as usize;
        let base = rng.range(-1, 27) as i32;
        let mut cells = vec![];
        for _ in 0..len {
            let r = (base + rng.range(0, 3) as i32).min(29);
            cells.push(if r == -1 { 0 } else { random_cell(&mut rng, r) });
        }
        if i % 7 == 0 { let c = cells[0]; cells.push(c); } // duplicates are legal input
        let maxr = cells.iter().map(|&c| res_of(c)).max().unwrap();
        let minr = cells.iter().map(|&c| res_of(c)).min().unwrap();
        let target = match i % 5 { 0 => maxr, 1 => (maxr + 1).min(29), 2 => (maxr + rng.range(0, 4) as i32).min(29), 3 => maxr - 1, _ => rng.range(-1, 29) as i32 };
        let total: u64 = cells.iter().map(|&c| honest_fanout(res_of(c), target)).fold(0u64, |a, b| a.saturating_add(b));
        if total > cap { continue; }
        if target < maxr { n_err += 1; }
        let _ = minr;
        t.emit(uncompact_event(&cells, target));
        n += 1;
        t.cut();
    }
    t.finish();
    json!({"files": t.files, "events": t.events, "uncompact_calls": n, "expected_error_cases": n_err, "mc_replayed": n_replayed,
           "samples": [uncompact_event(&[random_cell(&mut rng, 3), random_cell(&mut rng, 1)], 4)]})
}

pub fn collect_hex_lists(v: &Value, out: &mut Vec<Vec<u64>>) {
    match v {
        Value::Array(a) => {
            if !a.is_empty() && a.iter().all(|x| x.is_string()) {
                let l: Vec<u64> = a.iter().filter_map(|x| a5::hex_to_u64(x.as_str().unwrap()).ok()).collect();
                if l.len() == a.len() {
                    out.push(l);
                    return;
                }
            }
            for x in a { collect_hex_lists(x, out); }
        }
        Value::Object(o) => { for (_, x) in o { collect_hex_lists(x, out); } }
        _ => {}
    }
}
