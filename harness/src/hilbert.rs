// Trace generators for the curve inside a quintant: C17 (bijection), C12 (parent/child tile
// configurations + measured overlap facts), the discrete half of C06 (pin) and the relabelling of C18.
use crate::util::*;
use a5::coordinate_systems::{Face, IJ};
use a5::core::coordinate_transforms::face_to_ij;
use a5::core::hilbert::{ij_to_s, s_to_anchor, Anchor, Orientation};
use a5::core::tiling::get_pentagon_vertices;
use serde_json::{json, Value};

pub const ORIENTS: [(Orientation, &str); 6] = [
    (Orientation::UV, "UV"), (Orientation::VU, "VU"), (Orientation::UW, "UW"),
    (Orientation::WU, "WU"), (Orientation::VW, "VW"), (Orientation::WV, "WV"),
];

pub fn orient_name(o: Orientation) -> &'static str {
    ORIENTS.iter().find(|x| x.0 == o).unwrap().1
}

fn digits_lsb(s: u64, n: usize) -> Vec<u8> {
    (0..n).map(|k| ((s >> (2 * k)) & 3) as u8).collect()
}

/// pentagon of the code in lattice (ij) units of depth n
pub fn lattice_pentagon(n: usize, anchor: &Anchor) -> Vec<(f64, f64)> {
    let shape = get_pentagon_vertices(n as i32, 0, anchor);
    let sc = 2.0_f64.powi(n as i32);
    shape.get_vertices_vec().iter().map(|v| {
        let ij = face_to_ij(Face::new(v.x() * sc, v.y() * sc));
        (ij.x(), ij.y())
    }).collect()
}

fn base_lattice_pentagon() -> Vec<(f64, f64)> {
    a5::core::pentagon::pentagon().get_vertices_vec().iter().map(|v| { let ij = face_to_ij(*v); (ij.x(), ij.y()) }).collect()
}

pub fn centroid(p: &[(f64, f64)]) -> (f64, f64) {
    let n = p.len() as f64;
    (p.iter().map(|v| v.0).sum::<f64>() / n, p.iter().map(|v| v.1).sum::<f64>() / n)
}

/// measured tile: which isometry of the base pentagon (rot180?, reflect?) plus which integer lattice
/// translation reproduces the vertex set; residual in lattice units
pub fn measure_tile(p: &[(f64, f64)]) -> (bool, bool, i64, i64, f64) {
    let base = base_lattice_pentagon();
    let mut best = (false, false, 0i64, 0i64, f64::INFINITY);
    for rot in [false, true] {
        for refl in [false, true] {
            let t: Vec<(f64, f64)> = base.iter().map(|&(i, j)| {
                let (mut a, mut b) = if refl { (j, i) } else { (i, j) }; // reflect_y swaps the lattice axes
                if rot { a = -a; b = -b; }
                (a, b)
            }).collect();
            let (ci, cj) = centroid(&t);
            let (pi, pj) = centroid(p);
            let (ti, tj) = ((pi - ci).round(), (pj - cj).round());
            // max over vertices of distance to nearest transformed vertex
            let mut resid: f64 = 0.0;
            for &(x, y) in p {
                let d = t.iter().map(|&(a, b)| ((a + ti - x).powi(2) + (b + tj - y).powi(2)).sqrt()).fold(f64::INFINITY, f64::min);
                resid = resid.max(d);
            }
            if resid < best.4 {
                best = (rot, refl, ti as i64, tj as i64, resid);
            }
        }
    }
    best
}

/// lattice triangle containing a point: (up, i, j) and the margin to the nearest triangle side
pub fn triangle_of(u: f64, v: f64) -> (bool, i64, i64, f64) {
    let (i, j) = (u.floor(), v.floor());
    let (fu, fv) = (u - i, v - j);
    let up = fu + fv < 1.0;
    let margin = if up { fu.min(fv).min(1.0 - fu - fv) } else { (1.0 - fu).min(1.0 - fv).min(fu + fv - 1.0) };
    (up, i as i64, j as i64, margin)
}

pub fn anchor_entry(n: usize, o: Orientation, s: u64) -> Value {
    let a = s_to_anchor(s, n, o);
    let p = lattice_pentagon(n, &a);
    let (cu, cv) = centroid(&p);
    let (up, ti, tj, margin) = triangle_of(cu, cv);
    let back = ij_to_s(IJ::new(cu, cv), n, o);
    let (rot, refl, mi, mj, resid) = measure_tile(&p);
    json!({"d": digits_lsb(s, n), "k": a.k, "f0": a.flips[0], "f1": a.flips[1], "ai": a.offset.x() as i64, "aj": a.offset.y() as i64,
           "tile": [rot as u8, refl as u8, mi, mj], "resid": (resid * 1e12).min(1e9) as i64,
           "tri": [up as u8, ti, tj], "margin": (margin * 1e6) as i64, "back": digits_lsb(back, n)})
}

fn tri_key(e: &Value) -> (u64, i64, i64) {
    (1 - e["tri"][0].as_u64().unwrap(), e["tri"][1].as_i64().unwrap(), e["tri"][2].as_i64().unwrap())
}

fn emit_exhaustive(t: &mut Trace, op: &str, n: usize, o: Orientation, name: &str) -> u64 {
    let total = 1u64 << (2 * n);
    let mut entries: Vec<Value> = (0..total).map(|s| anchor_entry(n, o, s)).collect();
    // sorted by the triangle the harness measured; strictly increasing keys + count 4^n = bijection onto TriSet(n)
    entries.sort_by_key(tri_key);
    t.emit(json!({"op": "reset"}));
    for chunk in entries.chunks(128) {
        t.emit(json!({"op": op, "n": n, "o": name, "sorted": true, "entries": chunk}));
    }
    t.emit(json!({"op": "anchorsend", "n": n, "o": name, "count": total}));
    t.cut();
    total
}

fn pattern_positions(n: usize, rng: &mut Rng, nrand: usize) -> Vec<u64> {
    let mask = if n >= 32 { u64::MAX } else { (1u64 << (2 * n)) - 1 };
    let rep = |d: u64| (0..n).fold(0u64, |a, _| (a << 2) | d);
    let mut v = vec![0, mask, rep(1), rep(2), 1, mask - 1, mask >> 1, (mask >> 1) + 1,
                     (0..n).fold(0u64, |a, k| (a << 2) | (k as u64 % 2)), (0..n).fold(0u64, |a, k| (a << 2) | (3 * (k as u64 % 2))),
                     (0..n).fold(0u64, |a, k| (a << 2) | (1 + (k as u64 % 2)))];
    for pos in 0..n {
        for d in 1..4u64 {
            v.push(d << (2 * pos));
            // the neighbours of every such boundary position
            for i in 1..=3u64 { v.push(((d << (2 * pos)) + i) & mask); v.push((d << (2 * pos)).wrapping_sub(i) & mask); }
        }
        v.push(mask & !(3u64 << (2 * pos)));
    }
    for plen in 0..4usize { for run in [8usize, 12, 16, 20, 24] { for d in [0u64, 3] {
        if plen + run > n { continue; }
        let mut sv = rng.next() & mask;
        if plen > 0 { sv |= 1u64 << (2 * (n - 1)); }
        for k in (n - plen - run)..(n - plen) { sv = (sv & !(3u64 << (2 * k))) | (d << (2 * k)); }
        v.push(sv);
    } } }
    // a random prefix, a long run of one digit, a random suffix
    for _ in 0..(nrand / 4 + 4) {
        if n < 6 { break; }
        let run = 4 + rng.below((n - 3) as u64) as usize;
        let start = rng.below((n - run + 1) as u64) as usize;
        let d = [0u64, 3, 1, 2][rng.below(4) as usize];
        let mut s = rng.next() & mask;
        for k in start..(start + run).min(n) { s = (s & !(3u64 << (2 * k))) | (d << (2 * k)); }
        v.push(s);
    }
    for _ in 0..nrand { v.push(rng.next() & mask); }
    v.sort_unstable();
    v.dedup();
    v
}

pub fn gen_anchors(prop: &str, tier: &str, seed: u64, out: &str) -> Value {
    // C17: op "anchors" (property-level: bijection); C06: op "anchorspin" (reference equality with the spec's walk)
    let op = if prop == "C06" { "anchorspin" } else { "anchors" };
    let mut rng = Rng::new(seed ^ 0xC17);
    let mut t = Trace::new(out, &format!("{}a", prop.to_lowercase()), 140);
    let exn = match (prop, tier) { ("C17", "thorough") => 9, ("C17", _) => 6, (_, "thorough") => 6, _ => 4 };
    let mut n_exh = 0u64;
    for n in 1..=exn {
        for (o, name) in ORIENTS.iter() {
            n_exh += emit_exhaustive(&mut t, op, n, *o, name);
        }
    }
    let mut n_deep = 0u64;
    let nrand = if tier == "thorough" { 600 } else { 40 };
    for n in (exn + 1)..=29 {
        for (o, name) in ORIENTS.iter() {
            let pos = pattern_positions(n, &mut rng, nrand);
            for chunk in pos.chunks(64) {
                let entries: Vec<Value> = chunk.iter().map(|&s| anchor_entry(n, *o, s)).collect();
                n_deep += entries.len() as u64;
                t.emit(json!({"op": op, "n": n, "o": name, "sorted": false, "entries": entries}));
                t.cut();
            }
        }
    }
    t.finish();
    json!({"files": t.files, "events": t.events, "exhaustive_to_depth": exn, "positions_exhaustive": n_exh, "positions_deep": n_deep,
           "samples": [json!({"n": 5, "o": "WV", "entry": anchor_entry(5, Orientation::WV, 0x2e7)})]})
}

// ---------------------------------------------------------------- C12 (planar part)

fn poly_area(p: &[(f64, f64)]) -> f64 {
    let n = p.len();
    (0..n).map(|i| { let (a, b) = (p[i], p[(i + 1) % n]); a.0 * b.1 - b.0 * a.1 }).sum::<f64>() / 2.0
}

/// Sutherland-Hodgman clip of `subject` by convex `clip` (both made counter-clockwise first)
fn clip_convex(subject: &[(f64, f64)], clip: &[(f64, f64)]) -> Vec<(f64, f64)> {
    let mut clip = clip.to_vec();
    if poly_area(&clip) < 0.0 { clip.reverse(); }
    let mut out = subject.to_vec();
    let m = clip.len();
    for i in 0..m {
        let (a, b) = (clip[i], clip[(i + 1) % m]);
        let inside = |p: (f64, f64)| (b.0 - a.0) * (p.1 - a.1) - (b.1 - a.1) * (p.0 - a.0) >= 0.0;
        let input = out.clone();
        out.clear();
        if input.is_empty() { break; }
        for k in 0..input.len() {
            let (p, q) = (input[k], input[(k + 1) % input.len()]);
            let (ip, iq) = (inside(p), inside(q));
            if ip != iq {
                let d1 = (b.0 - a.0) * (p.1 - a.1) - (b.1 - a.1) * (p.0 - a.0);
                let d2 = (b.0 - a.0) * (q.1 - a.1) - (b.1 - a.1) * (q.0 - a.0);
                let tt = d1 / (d1 - d2);
                let x = (p.0 + tt * (q.0 - p.0), p.1 + tt * (q.1 - p.1));
                if ip { out.push(x); } else { out.push(x); out.push(q); }
            } else if ip {
                out.push(q);
            }
        }
    }
    out
}

/// to orthonormal face coordinates (areas/distances must not be measured in the skewed lattice basis)
fn lattice_to_face(p: &[(f64, f64)]) -> Vec<(f64, f64)> {
    p.iter().map(|&(i, j)| { let f = a5::core::coordinate_transforms::ij_to_face(IJ::new(i, j)); (f.x(), f.y()) }).collect()
}

pub fn gen_c12_planar(t: &mut Trace, tier: &str, rng: &mut Rng) -> (u64, u64) {
    let exn = if tier == "thorough" { 6 } else { 4 };
    let mut n_cfg = 0u64;
    // witnesses: config -> (parent pentagon, child pentagon) in lattice units of the PARENT depth; parent type -> children
    use std::collections::BTreeMap;
    let mut witness: BTreeMap<Vec<i64>, (Vec<(f64, f64)>, Vec<(f64, f64)>)> = BTreeMap::new();
    let mut families: BTreeMap<(bool, bool), (Vec<(f64, f64)>, Vec<Vec<(f64, f64)>>)> = BTreeMap::new();
    let mut scan = |n: usize, o: Orientation, name: &str, positions: &[u64], t: &mut Trace| {
        let mut entries = vec![];
        for &s in positions {
            let pa = s_to_anchor(s, n, o);
            let pp = lattice_pentagon(n, &pa);
            let pt = measure_tile(&pp);
            let mut kids = vec![];
            for c in 0..4u64 {
                let ka = s_to_anchor(4 * s + c, n + 1, o);
                let kp = lattice_pentagon(n + 1, &ka);
                let kt = measure_tile(&kp);
                let cfg = vec![pt.0 as i64, pt.1 as i64, kt.0 as i64, kt.1 as i64, kt.2 - 2 * pt.2, kt.3 - 2 * pt.3];
                let kp_parent_units: Vec<(f64, f64)> = kp.iter().map(|&(a, b)| (a / 2.0, b / 2.0)).collect();
                witness.entry(cfg.clone()).or_insert_with(|| (pp.clone(), kp_parent_units.clone()));
                kids.push(kp_parent_units);
                entries.push(json!({"d": digits_lsb(s, n), "c": c, "cfg": cfg, "resid": ((pt.4.max(kt.4)) * 1e12).min(1e9) as i64}));
            }
            families.entry((pt.0, pt.1)).or_insert_with(|| (pp.clone(), kids));
        }
        for chunk in entries.chunks(256) {
            t.emit(json!({"op": "relconfig", "n": n, "o": name, "entries": chunk}));
            t.cut();
        }
        entries.len() as u64
    };
    for n in 1..=exn {
        for (o, name) in ORIENTS.iter() {
            let all: Vec<u64> = (0..(1u64 << (2 * n))).collect();
            n_cfg += scan(n, *o, name, &all, t);
        }
    }
    for n in (exn + 1)..=28 {
        for (o, name) in ORIENTS.iter() {
            let pos = pattern_positions(n, rng, if tier == "thorough" { 200 } else { 20 });
            n_cfg += scan(n, *o, name, &pos, t);
        }
    }
    // measured facts for every configuration seen, on the real planar pentagons
    t.emit(json!({"op": "reset"}));
    let mut n_facts = 0u64;
    for (cfg, (pp, kp)) in &witness {
        let (pf, kf) = (lattice_to_face(pp), lattice_to_face(kp));
        let inter = clip_convex(&kf, &pf);
        let overlap = poly_area(&inter).abs() / poly_area(&kf).abs();
        let (pc, kc) = (centroid(&pf), centroid(&kf));
        let dist = ((pc.0 - kc.0).powi(2) + (pc.1 - kc.1).powi(2)).sqrt() / poly_area(&pf).abs().sqrt();
        t.emit(json!({"op": "relfact", "cfg": cfg, "overlap_ppm": (overlap * 1e6) as i64, "dist_ppm": (dist * 1e6) as i64,
                      "area_ratio_ppm": (poly_area(&kf).abs() / poly_area(&pf).abs() * 1e6).round() as i64}));
        n_facts += 1;
    }
    for ((rot, refl), (pp, kids)) in &families {
        let pf = lattice_to_face(pp);
        let mut covered = 0.0;
        for k in kids {
            let kf = lattice_to_face(k);
            covered += poly_area(&clip_convex(&kf, &pf)).abs();
        }
        // children must not overlap each other for the sum to be a union: pairwise intersections measured too
        let mut pair_overlap: f64 = 0.0;
        for a in 0..kids.len() { for b in (a + 1)..kids.len() {
            pair_overlap = pair_overlap.max(poly_area(&clip_convex(&lattice_to_face(&kids[a]), &lattice_to_face(&kids[b]))).abs());
        } }
        t.emit(json!({"op": "coverfact", "ptype": [*rot as u8, *refl as u8], "cover_ppm": (covered / poly_area(&pf).abs() * 1e6) as i64,
                      "children": kids.len(), "sibling_overlap_ppm": (pair_overlap / poly_area(&pf).abs() * 1e6) as i64}));
        n_facts += 1;
    }
    t.emit(json!({"op": "relend"}));
    t.cut();
    (n_cfg, n_facts)
}

// ---------------------------------------------------------------- C18 relabelling

pub fn quintmap_events(t: &mut Trace, op: &str) -> u64 {
    use a5::core::origin::{get_origins, quintant_to_segment, segment_to_quintant};
    let mut n = 0;
    for origin in get_origins().iter() {
        let q2s: Vec<Value> = (0..5).map(|q| { let (s, o) = quintant_to_segment(q, origin); json!([s, orient_name(o)]) }).collect();
        let s2q: Vec<Value> = (0..5).map(|s| { let (q, o) = segment_to_quintant(s, origin); json!([q, orient_name(o)]) }).collect();
        let layout: Vec<&str> = origin.orientation.iter().map(|&o| orient_name(o)).collect();
        t.emit(json!({"op": op, "face": origin.id, "first": origin.first_quintant, "layout": layout, "q2s": q2s, "s2q": s2q}));
        n += 1;
    }
    t.cut();
    n
}

// ---------------------------------------------------------------- C12 (sphere part)

fn childgeom_event(parent: u64, child: u64) -> Value {
    use crate::geom::*;
    let rp = res_of(parent);
    let is_child = a5::cell_to_parent(child, None).ok() == Some(parent);
    let pc = a5::cell_to_lonlat(parent).unwrap();
    let cc = a5::cell_to_lonlat(child).unwrap();
    let ncells = if rp == 0 { 12.0 } else { 60.0 * 4f64.powi(rp - 1) };
    let parent_area = 4.0 * std::f64::consts::PI / ncells;
    let dist = distance(p_of(pc), p_of(cc)) / parent_area.sqrt();
    // witness of shared interior: a point inside BOTH rings (by the independent ring oracle) with a margin
    let pring = ring_of(parent, 8);
    let cring = ring_of(child, 8);
    let size = (parent_area / 4.0).sqrt();
    let mut cands = vec![cc];
    let corners = a5::cell_to_boundary(child, Some(a5::core::cell::CellToBoundaryOptions { closed_ring: false, segments: Some(1) })).unwrap();
    for v in &corners {
        for t in [0.15, 0.4, 0.7] { cands.push(towards(*v, cc, t)); }
    }
    let mut best = f64::NEG_INFINITY;
    for c in cands {
        let p = p_of(c);
        let m = ring_margin(&pring, p).min(ring_margin(&cring, p));
        best = best.max(m / size);
    }
    json!({"op": "childgeom", "parent": quads(parent), "child": quads(child), "is_child": is_child,
           "dist_ppm": (dist * 1e6) as i64, "shares_interior": best > 0.01, "witness_margin_ppm": (best * 1e6) as i64})
}

pub fn gen_c12(tier: &str, seed: u64, out: &str) -> Value {
    let mut rng = Rng::new(seed ^ 0xC12);
    let mut t = Trace::new(out, "c12", 200);
    let (n_cfg, n_facts) = gen_c12_planar(&mut t, tier, &mut rng);
    // sphere: exhaustive for the non-curve levels 0->1 (12x5) and 1->2 (60x4), and res 2->3 for all 240 parents
    let mut n_geo = 0u64;
    for r in 0..=(if tier == "thorough" { 4 } else { 2 }) {
        for p in all_cells(r) {
            for c in a5::cell_to_children(p, None).unwrap() {
                t.emit(childgeom_event(p, c));
                n_geo += 1;
            }
            t.cut();
        }
    }
    // sampled parents r = 3..28 on every face and quintant
    let per = if tier == "thorough" { 12 } else { 1 };
    for r in 3..=28 {
        for face in 0..12u8 {
            for seg in 0..5usize {
                for _ in 0..per {
                    let s = rng.next() & ((1u64 << (2 * (r - 1))) - 1);
                    let p = a5::core::serialization::serialize(&a5::core::utils::A5Cell { origin_id: face, segment: seg, s, resolution: r }).unwrap();
                    for c in a5::cell_to_children(p, None).unwrap() {
                        t.emit(childgeom_event(p, c));
                        n_geo += 1;
                    }
                    t.cut();
                }
            }
        }
    }
    // children (and parents) whose curve position is special as a number (decimal round, next to 2^16 / 2^32 / 2^53)
    for r in 3..=29 {
        let ns = crate::ids::numeric_specials((r - 1) as usize, &mut rng);
        for (i, &s) in ns.iter().enumerate() {
            if tier != "thorough" && (i + r as usize) % 4 != 0 { continue; }
            let c = a5::core::serialization::serialize(&a5::core::utils::A5Cell { origin_id: rng.below(12) as u8, segment: rng.below(5) as usize, s, resolution: r }).unwrap();
            let p = a5::cell_to_parent(c, None).unwrap();
            t.emit(childgeom_event(p, c));
            n_geo += 1;
            if r < 29 { for cc in a5::cell_to_children(c, None).unwrap() { t.emit(childgeom_event(c, cc)); n_geo += 1; } }
        }
        t.cut();
    }
    // parents at the special points (poles, face centres / vertices / edge midpoints, round coordinates such as the prime
    // meridian and the equator)
    for (i, sp) in crate::geo::special_points().iter().enumerate() {
        for r in [3, 9, 16, 22, 24, 25, 26, 27, 28] {
            if tier != "thorough" && (i + r as usize) % 2 == 0 { continue; }
            if let Ok(p) = a5::lonlat_to_cell(*sp, r) {
                for c in a5::cell_to_children(p, None).unwrap_or_default() { t.emit(childgeom_event(p, c)); n_geo += 1; }
            }
        }
        t.cut();
    }
    // parents sitting on anomalies of the face -> sphere map (continuity scan shared with C04): a tear of the map moves
    // a child's centre relative to its parent's although both tiles are where they should be in the plane
    let flags = crate::geo::continuity_flags(tier);
    let mut n_flag = 0u64;
    for ll in &flags {
        for r in [14, 18, 21, 23, 24, 25, 26, 27, 28] {
            if let Ok(p) = a5::lonlat_to_cell(*ll, r) {
                for c in a5::cell_to_children(p, None).unwrap_or_default() { t.emit(childgeom_event(p, c)); n_geo += 1; n_flag += 1; }
            }
        }
        t.cut();
    }
    t.finish();
    json!({"files": t.files, "events": t.events, "tile_pairs_classified": n_cfg, "pairs_at_continuity_anomalies": n_flag, "planar_facts": n_facts, "sphere_pairs": n_geo,
           "samples": [childgeom_event(all_cells(2)[17], a5::cell_to_children(all_cells(2)[17], None).unwrap()[2])]})
}

pub fn gen_c18_relabel(t: &mut Trace, pin: bool) -> u64 {
    quintmap_events(t, if pin { "quintmappin" } else { "quintmap" })
}
