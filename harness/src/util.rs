// Shared helpers: quad strings, cell descriptions, PRNG, trace writer, panic capture.
use a5::core::utils::A5Cell;
use serde_json::{json, Value};
use std::fs::File;
use std::io::{BufWriter, Write};

/// u64 -> 32 base-4 digits, most significant first
pub fn quads(id: u64) -> Value {
    let v: Vec<u8> = (0..32).map(|k| ((id >> (62 - 2 * k)) & 3) as u8).collect();
    json!(v)
}

pub fn quads_list(ids: &[u64]) -> Value {
    Value::Array(ids.iter().map(|&i| quads(i)).collect())
}

pub fn from_quads(v: &Value) -> u64 {
    let mut id = 0u64;
    for d in v.as_array().expect("quads array") {
        id = (id << 2) | d.as_u64().unwrap();
    }
    id
}

/// curve position -> digits (msb first) of a cell at `res`
pub fn s_digits(s: u64, res: i32) -> Vec<u8> {
    let h = if res >= 2 { (res - 1) as usize } else { 0 };
    (0..h).map(|k| ((s >> (2 * (h - 1 - k))) & 3) as u8).collect()
}

pub fn digits_to_s(d: &[u8]) -> u64 {
    d.iter().fold(0u64, |a, &x| (a << 2) | x as u64)
}

pub fn cell_json(c: &A5Cell) -> Value {
    json!({"res": c.resolution, "face": c.origin_id, "seg": c.segment, "s": s_digits(c.s, c.resolution)})
}

pub fn cell_from_json(v: &Value) -> A5Cell {
    let d: Vec<u8> = v["s"].as_array().unwrap().iter().map(|x| x.as_u64().unwrap() as u8).collect();
    A5Cell {
        resolution: v["res"].as_i64().unwrap() as i32,
        origin_id: v["face"].as_u64().unwrap() as u8,
        segment: v["seg"].as_u64().unwrap() as usize,
        s: digits_to_s(&d),
    }
}

pub fn str_codes(s: &str) -> Value {
    // TLC strings are not sequences: text travels as a list of code points (bytes for ASCII,
    // 255 stands for any non-ASCII scalar so the alphabet stays small)
    let v: Vec<u32> = s.chars().map(|c| if (c as u32) < 128 { c as u32 } else { 255 }).collect();
    json!(v)
}

/// splitmix64 / xoshiro256** PRNG (deterministic from VERIF_SEED, no external crate)
#[derive(Clone)]
pub struct Rng {
    s: [u64; 4],
}
impl Rng {
    pub fn new(seed: u64) -> Self {
        let mut z = seed.wrapping_add(0x9E3779B97F4A7C15);
        let mut s = [0u64; 4];
        for x in s.iter_mut() {
            z = z.wrapping_add(0x9E3779B97F4A7C15);
            let mut y = z;
            y = (y ^ (y >> 30)).wrapping_mul(0xBF58476D1CE4E5B9);
            y = (y ^ (y >> 27)).wrapping_mul(0x94D049BB133111EB);
            *x = y ^ (y >> 31);
        }
        Rng { s }
    }
    pub fn next(&mut self) -> u64 {
        let r = self.s[1].wrapping_mul(5).rotate_left(7).wrapping_mul(9);
        let t = self.s[1] << 17;
        self.s[2] ^= self.s[0];
        self.s[3] ^= self.s[1];
        self.s[1] ^= self.s[2];
        self.s[0] ^= self.s[3];
        self.s[2] ^= t;
        self.s[3] = self.s[3].rotate_left(45);
        r
    }
    pub fn below(&mut self, n: u64) -> u64 {
        if n == 0 {
            0
        } else {
            self.next() % n
        }
    }
    pub fn range(&mut self, lo: i64, hi: i64) -> i64 {
        lo + self.below((hi - lo + 1) as u64) as i64
    }
    pub fn f64(&mut self) -> f64 {
        (self.next() >> 11) as f64 / (1u64 << 53) as f64
    }
    pub fn chance(&mut self, p: f64) -> bool {
        self.f64() < p
    }
    pub fn shuffle<T>(&mut self, v: &mut [T]) {
        for i in (1..v.len()).rev() {
            let j = self.below(i as u64 + 1) as usize;
            v.swap(i, j);
        }
    }
    pub fn pick<'a, T>(&mut self, v: &'a [T]) -> &'a T {
        &v[self.below(v.len() as u64) as usize]
    }
}

/// ND-JSON trace writer that splits the stream into shards (separate files) so that
/// independent shards can be validated by parallel TLC processes.
pub struct Trace {
    dir: String,
    name: String,
    shard: usize,
    in_shard: usize,
    max_per_shard: usize,
    w: Option<BufWriter<File>>,
    pub events: u64,
    pub files: Vec<String>,
}
impl Trace {
    pub fn new(dir: &str, name: &str, max_per_shard: usize) -> Self {
        std::fs::create_dir_all(dir).unwrap();
        Trace { dir: dir.into(), name: name.into(), shard: 0, in_shard: 0, max_per_shard, w: None, events: 0, files: vec![] }
    }
    fn open(&mut self) {
        let p = format!("{}/{}.{:04}.ndjson", self.dir, self.name, self.shard);
        self.files.push(p.clone());
        self.w = Some(BufWriter::new(File::create(p).unwrap()));
        self.in_shard = 0;
    }
    /// events between two cut points stay in one file (stateful sequences must not be split)
    pub fn cut(&mut self) {
        if self.in_shard >= self.max_per_shard {
            if let Some(mut w) = self.w.take() {
                w.flush().unwrap();
            }
            self.shard += 1;
        }
    }
    pub fn emit(&mut self, v: Value) {
        if self.w.is_none() {
            self.open();
        }
        let w = self.w.as_mut().unwrap();
        serde_json::to_writer(&mut *w, &v).unwrap();
        w.write_all(b"\n").unwrap();
        self.in_shard += 1;
        self.events += 1;
    }
    pub fn finish(&mut self) {
        if let Some(mut w) = self.w.take() {
            w.flush().unwrap();
        }
    }
}

/// A call that may take the whole process down (abort on allocation failure, stack overflow, kill by the OOM killer)
/// is announced first: `<out>/pending.json` names it until it has returned.  If the generator dies, bin/check turns the
/// announcement into a `crashed` event, which Trace.tla rejects -- a crash of the code under test is data, not a tool error.
static OUT_DIR: std::sync::OnceLock<String> = std::sync::OnceLock::new();
pub fn set_out_dir(d: &str) { let _ = OUT_DIR.set(d.to_string()); }
pub fn about_to(call: &str, args: Value) {
    if let Some(d) = OUT_DIR.get() {
        let _ = std::fs::write(format!("{}/pending.json", d), serde_json::to_string(&json!({"op": "crashed", "call": call, "args": args})).unwrap());
    }
}
pub fn done() {
    if let Some(d) = OUT_DIR.get() { let _ = std::fs::remove_file(format!("{}/pending.json", d)); }
}

/// Run a closure, turning a panic in the code under test into data.
pub fn catch<T, F: FnOnce() -> T + std::panic::UnwindSafe>(f: F) -> Result<T, String> {
    match std::panic::catch_unwind(f) {
        Ok(v) => Ok(v),
        Err(e) => {
            let msg = if let Some(s) = e.downcast_ref::<&str>() {
                s.to_string()
            } else if let Some(s) = e.downcast_ref::<String>() {
                s.clone()
            } else {
                "panic".to_string()
            };
            Err(msg)
        }
    }
}

pub fn quiet_panics() {
    std::panic::set_hook(Box::new(|_| {}));
}

pub fn res_of(id: u64) -> i32 {
    a5::get_resolution(id)
}

/// every cell of a resolution, through the library's own cell_to_children from the world cell
pub fn all_cells(res: i32) -> Vec<u64> {
    a5::cell_to_children(0, Some(res)).expect("children of world")
}

pub fn write_summary(dir: &str, v: &Value) {
    std::fs::write(format!("{}/summary.json", dir), serde_json::to_string_pretty(v).unwrap()).unwrap();
}
