// Independent geometric oracles (nothing here calls the library's projection code):
// closed-form authalic latitude, gnomonic tangent coordinates computed from lon/lat DIFFERENCES
// (stable down to resolution 29 and next to the poles), signed point-in-ring margin, ring area.
use a5::LonLat;

const E2: f64 = 0.0066943799901413165; // WGS84 first eccentricity squared
pub const DEG: f64 = std::f64::consts::PI / 180.0;

fn q_of(sinphi: f64) -> f64 {
    let e = E2.sqrt();
    (1.0 - E2) * (sinphi / (1.0 - E2 * sinphi * sinphi) - (1.0 / (2.0 * e)) * ((1.0 - e * sinphi) / (1.0 + e * sinphi)).ln())
}

/// geodetic latitude (rad) -> authalic latitude (rad), closed form
pub fn authalic_lat(phi: f64) -> f64 {
    let qp = q_of(1.0);
    let x = q_of(phi.sin()) / qp;
    x.clamp(-1.0, 1.0).asin()
}

#[derive(Clone, Copy, Debug)]
pub struct P {
    pub lon: f64, // radians
    pub beta: f64, // authalic latitude, radians
}

pub fn p_of(ll: LonLat) -> P {
    P { lon: ll.longitude() * DEG, beta: authalic_lat(ll.latitude() * DEG) }
}

pub fn wrap_pi(mut d: f64) -> f64 {
    while d > std::f64::consts::PI { d -= std::f64::consts::TAU; }
    while d < -std::f64::consts::PI { d += std::f64::consts::TAU; }
    d
}

/// gnomonic coordinates of p in the tangent plane at o, from differences (no cancellation)
pub fn tangent(o: P, p: P) -> (f64, f64) {
    let dl = wrap_pi(p.lon - o.lon);
    let db = p.beta - o.beta;
    let s2 = (dl / 2.0).sin();
    let east = p.beta.cos() * dl.sin();
    let north = db.sin() + 2.0 * o.beta.sin() * p.beta.cos() * s2 * s2;
    // cos c = cos(db) - 2 cos b0 cos b sin^2(dl/2)
    let cosc = db.cos() - 2.0 * o.beta.cos() * p.beta.cos() * s2 * s2;
    (east / cosc, north / cosc)
}

/// great-circle distance in radians (stable for tiny separations)
pub fn distance(a: P, b: P) -> f64 {
    let dl = wrap_pi(b.lon - a.lon);
    let db = b.beta - a.beta;
    let h = (db / 2.0).sin().powi(2) + a.beta.cos() * b.beta.cos() * (dl / 2.0).sin().powi(2);
    2.0 * h.sqrt().min(1.0).asin()
}

fn seg_dist(p: (f64, f64), a: (f64, f64), b: (f64, f64)) -> f64 {
    let (dx, dy) = (b.0 - a.0, b.1 - a.1);
    let l2 = dx * dx + dy * dy;
    let t = if l2 == 0.0 { 0.0 } else { (((p.0 - a.0) * dx + (p.1 - a.1) * dy) / l2).clamp(0.0, 1.0) };
    let (cx, cy) = (a.0 + t * dx, a.1 + t * dy);
    ((p.0 - cx).powi(2) + (p.1 - cy).powi(2)).sqrt()
}

/// signed margin (radians, gnomonic plane at the test point) of `pt` w.r.t. the closed ring:
/// positive = inside by that distance, negative = outside. Orientation-independent (winding number).
pub fn ring_margin(ring: &[P], pt: P) -> f64 {
    let xy: Vec<(f64, f64)> = ring.iter().map(|&v| tangent(pt, v)).collect();
    let n = xy.len();
    let mut wn = 0i32;
    let mut dmin = f64::INFINITY;
    for i in 0..n {
        let (a, b) = (xy[i], xy[(i + 1) % n]);
        if a == b { continue; }
        dmin = dmin.min(seg_dist((0.0, 0.0), a, b));
        // winding number of the origin
        let cross = a.0 * b.1 - a.1 * b.0;
        if a.1 <= 0.0 {
            if b.1 > 0.0 && cross > 0.0 { wn += 1; }
        } else if b.1 <= 0.0 && cross < 0.0 {
            wn -= 1;
        }
    }
    if wn != 0 { dmin } else { -dmin }
}

/// signed area (steradians) of the ring on the authalic sphere, Lambert azimuthal equal-area chart at `o`;
/// positive = counter-clockwise seen from outside
pub fn ring_area(ring: &[P], o: P) -> f64 {
    let xy: Vec<(f64, f64)> = ring.iter().map(|&v| {
        let (gx, gy) = tangent(o, v);
        let rho_g = (gx * gx + gy * gy).sqrt(); // tan c
        if rho_g == 0.0 { return (0.0, 0.0); }
        // rho_laea = 2 sin(c/2), computed from tan c without cancellation
        let cosc = 1.0 / (1.0 + rho_g * rho_g).sqrt();
        let sin_half = (rho_g * cosc) / (2.0 * ((1.0 + cosc) / 2.0).sqrt()); // sin c / (2 cos(c/2))
        let k = 2.0 * sin_half / rho_g;
        (gx * k, gy * k)
    }).collect();
    let n = xy.len();
    (0..n).map(|i| { let (a, b) = (xy[i], xy[(i + 1) % n]); a.0 * b.1 - b.0 * a.1 }).sum::<f64>() / 2.0
}

pub fn ring_of(id: u64, segments: i32) -> Vec<P> {
    let opts = a5::core::cell::CellToBoundaryOptions { closed_ring: false, segments: Some(segments) };
    a5::cell_to_boundary(id, Some(opts)).unwrap_or_default().into_iter().map(p_of).collect()
}

/// point at fraction t from a towards b (tangent plane at a, adequate for witnesses)
pub fn towards(a: LonLat, b: LonLat, t: f64) -> LonLat {
    let dl = wrap_pi((b.longitude() - a.longitude()) * DEG) / DEG;
    LonLat::new(a.longitude() + t * dl, a.latitude() + t * (b.latitude() - a.latitude()))
}
