// Independent geometric oracles (nothing here calls the library's projection code):
// closed-form authalic latitude, gnomonic tangent coordinates computed from lon/lat DIFFERENCES
// (stable down to resolution 29 and next to the poles), signed point-in-ring margin, ring area.
use a5::LonLat;

const E2: f64 = 0.0066943799901413165; // WGS84 first eccentricity squared
pub const DEG: f64 = std::f64::consts::PI / 180.0;

fn q_of(sinphi: f64) -> f64 {
    let e = E2.sqrt();
    (1.0 - E2) * (sinphi / (1.0 - E2 * sinphi * sinphi) + (e * sinphi).atanh() / e)
}

/// authalic colatitude (rad, from the nearer pole... of the same hemisphere) of a point whose GEODETIC colatitude
/// from that pole is `t`; stable for t -> 0 (no asin near 1): 1 - q/q_p is formed without cancellation
fn authalic_colat(t: f64) -> f64 {
    let e = E2.sqrt();
    let s = t.cos();
    let d = 2.0 * (t / 2.0).sin().powi(2); // 1 - s
    let qp = q_of(1.0);
    let diff = (1.0 - E2) * (d * (1.0 + E2 * s) / ((1.0 - E2) * (1.0 - E2 * s * s)) + (e * d / (1.0 - E2 * s)).atanh() / e);
    let u = diff / qp; // 1 - sin(beta)
    (u * (2.0 - u)).max(0.0).sqrt().atan2(1.0 - u)
}

/// geodetic latitude (rad) -> authalic latitude (rad), closed form
pub fn authalic_lat(phi: f64) -> f64 {
    let c = authalic_colat(std::f64::consts::FRAC_PI_2 - phi.abs());
    (std::f64::consts::FRAC_PI_2 - c) * phi.signum()
}

/// a point of the authalic sphere; the colatitude from the pole of its own hemisphere is carried
/// separately so that nothing loses precision next to the poles
#[derive(Clone, Copy, Debug)]
pub struct P {
    pub lon: f64,   // radians
    pub beta: f64,  // authalic latitude, radians
    pub c: f64,     // authalic colatitude from the pole of the hemisphere (>= 0)
    pub north: bool,
}

impl P {
    pub fn cosb(&self) -> f64 { self.c.sin() }
    pub fn sinb(&self) -> f64 { if self.north { self.c.cos() } else { -self.c.cos() } }
    pub fn pole(north: bool) -> P { P { lon: 0.0, beta: if north { std::f64::consts::FRAC_PI_2 } else { -std::f64::consts::FRAC_PI_2 }, c: 0.0, north } }
}

pub fn p_of(ll: LonLat) -> P {
    let lat = ll.latitude();
    let t = (90.0 - lat.abs()) * DEG; // exact subtraction next to the poles
    let c = authalic_colat(t.max(0.0));
    let north = lat >= 0.0;
    P { lon: ll.longitude() * DEG, beta: (std::f64::consts::FRAC_PI_2 - c) * if north { 1.0 } else { -1.0 }, c, north }
}

pub fn wrap_pi(mut d: f64) -> f64 {
    while d > std::f64::consts::PI { d -= std::f64::consts::TAU; }
    while d < -std::f64::consts::PI { d += std::f64::consts::TAU; }
    d
}

/// latitude difference b - a without cancellation when both are next to the same pole
fn dbeta(a: P, b: P) -> f64 {
    if a.north == b.north { if a.north { a.c - b.c } else { b.c - a.c } } else { b.beta - a.beta }
}

/// gnomonic coordinates of p in the tangent plane at o, from differences (no cancellation)
pub fn tangent(o: P, p: P) -> (f64, f64) {
    let dl = wrap_pi(p.lon - o.lon);
    let db = dbeta(o, p);
    let s2 = (dl / 2.0).sin();
    let east = p.cosb() * dl.sin();
    let north = db.sin() + 2.0 * o.sinb() * p.cosb() * s2 * s2;
    // cos c = cos(db) - 2 cos b0 cos b sin^2(dl/2)
    let cosc = db.cos() - 2.0 * o.cosb() * p.cosb() * s2 * s2;
    (east / cosc, north / cosc)
}

/// great-circle distance in radians (stable for tiny separations)
pub fn distance(a: P, b: P) -> f64 {
    let dl = wrap_pi(b.lon - a.lon);
    let db = dbeta(a, b);
    let h = (db / 2.0).sin().powi(2) + a.cosb() * b.cosb() * (dl / 2.0).sin().powi(2);
    2.0 * h.sqrt().min(1.0).asin()
}

fn seg_dist(p: (f64, f64), a: (f64, f64), b: (f64, f64)) -> f64 {
    let (dx, dy) = (b.0 - a.0, b.1 - a.1);
    let l2 = dx * dx + dy * dy;
    let t = if l2 == 0.0 { 0.0 } else { (((p.0 - a.0) * dx + (p.1 - a.1) * dy) / l2).clamp(0.0, 1.0) };
    let (cx, cy) = (a.0 + t * dx, a.1 + t * dy);
    ((p.0 - cx).powi(2) + (p.1 - cy).powi(2)).sqrt()
}

/// signed margin (radians, gnomonic plane at the test point) of `pt` w.r.t. the closed ring:
/// positive = inside by that distance, negative = outside. Orientation-independent (winding number).
pub fn ring_margin(ring: &[P], pt: P) -> f64 {
    let xy: Vec<(f64, f64)> = ring.iter().map(|&v| tangent(pt, v)).collect();
    let n = xy.len();
    let mut wn = 0i32;
    let mut dmin = f64::INFINITY;
    for i in 0..n {
        let (a, b) = (xy[i], xy[(i + 1) % n]);
        if a == b { continue; }
        dmin = dmin.min(seg_dist((0.0, 0.0), a, b));
        // winding number of the origin
        let cross = a.0 * b.1 - a.1 * b.0;
        if a.1 <= 0.0 {
            if b.1 > 0.0 && cross > 0.0 { wn += 1; }
        } else if b.1 <= 0.0 && cross < 0.0 {
            wn -= 1;
        }
    }
    if wn != 0 { dmin } else { -dmin }
}

/// signed area (steradians) of the ring on the authalic sphere, Lambert azimuthal equal-area chart at `o`;
/// positive = counter-clockwise seen from outside
pub fn ring_area(ring: &[P], o: P) -> f64 {
    let xy: Vec<(f64, f64)> = ring.iter().map(|&v| {
        let (gx, gy) = tangent(o, v);
        let rho_g = (gx * gx + gy * gy).sqrt(); // tan c
        if rho_g == 0.0 { return (0.0, 0.0); }
        // rho_laea = 2 sin(c/2), computed from tan c without cancellation
        let cosc = 1.0 / (1.0 + rho_g * rho_g).sqrt();
        let sin_half = (rho_g * cosc) / (2.0 * ((1.0 + cosc) / 2.0).sqrt()); // sin c / (2 cos(c/2))
        let k = 2.0 * sin_half / rho_g;
        (gx * k, gy * k)
    }).collect();
    let n = xy.len();
    (0..n).map(|i| { let (a, b) = (xy[i], xy[(i + 1) % n]); a.0 * b.1 - b.0 * a.1 }).sum::<f64>() / 2.0
}

pub fn ring_of(id: u64, segments: i32) -> Vec<P> {
    let opts = a5::core::cell::CellToBoundaryOptions { closed_ring: false, segments: Some(segments) };
    a5::cell_to_boundary(id, Some(opts)).unwrap_or_default().into_iter().map(p_of).collect()
}

/// point at fraction t from a towards b (tangent plane at a, adequate for witnesses)
pub fn towards(a: LonLat, b: LonLat, t: f64) -> LonLat {
    let dl = wrap_pi((b.longitude() - a.longitude()) * DEG) / DEG;
    LonLat::new(a.longitude() + t * dl, a.latitude() + t * (b.latitude() - a.latitude()))
}
