// C13: every call is a pure function of its arguments -- across histories, cache states and threads.
use crate::util::*;
use a5::coordinate_systems::Face;
use a5::projections::dodecahedron::DodecahedronProjection;
use a5::LonLat;
use serde_json::{json, Value};
use std::sync::{mpsc, Arc, Barrier};

const PI: f64 = std::f64::consts::PI;

#[derive(Clone, Copy, Debug, PartialEq)]
pub struct Key { pub origin: usize, pub idx: usize, pub refl: bool }

/// a face-plane point that makes forward/inverse use exactly the memo key (origin, idx, refl)
fn face_point(k: Key, jitter: f64) -> Face {
    let sector = PI / 5.0;
    let mut gamma = (k.idx as f64 + 0.3 + 0.4 * jitter) * sector;
    if gamma > PI { gamma -= 2.0 * PI; }
    let seg = gamma / (2.0 * sector);
    let beta = (seg - seg.round()) * 2.0 * sector;
    let d = if k.refl { 0.66 } else { 0.2 + 0.3 * jitter };
    let rho = d / beta.cos();
    Face::new(rho * gamma.cos(), rho * gamma.sin())
}

fn bits2(a: f64, b: f64) -> String { format!("{:016x}{:016x}", a.to_bits(), b.to_bits()) }

/// one projection call on `proj`; dir 0 = inverse(face point), 1 = forward(sphere point)
fn proj_call(proj: &mut DodecahedronProjection, k: Key, dir: u8, jitter: f64) -> String {
    let fp = face_point(k, jitter);
    if dir == 0 {
        match proj.inverse(fp, k.origin as u8) { Ok(s) => bits2(s.theta().get(), s.phi().get()), Err(e) => format!("err:{}", e) }
    } else {
        // the sphere point comes from an unrelated scratch instance so that producing it does not warm `proj`
        let mut scratch = DodecahedronProjection::new().unwrap();
        let sp = scratch.inverse(fp, k.origin as u8).unwrap();
        match proj.forward(sp, k.origin as u8) { Ok(f) => bits2(f.x(), f.y()), Err(e) => format!("err:{}", e) }
    }
}

fn filled(v: &[bool]) -> Vec<usize> { v.iter().enumerate().filter(|x| *x.1).map(|x| x.0).collect() }
fn view_json(proj: &DodecahedronProjection) -> (Vec<usize>, Vec<usize>, usize) {
    let v = proj.verif_cache_view();
    (filled(&v.face_slots), filled(&v.spherical_slots), v.instance)
}
fn key_json(k: Key) -> Value { json!([k.origin, k.idx, k.refl as u8]) }

fn all_keys() -> Vec<Key> {
    let mut v = vec![];
    for refl in [false, true] { for origin in 0..12 { for idx in 0..10 { v.push(Key { origin, idx, refl }); } } }
    v
}

/// (2) ordered pairs of memo keys on a fresh instance: B after A must equal B cold, bit for bit
fn pair_event(a: Key, b: Key, da: u8, db: u8, cold: &std::collections::HashMap<(usize, usize, bool, u8), String>) -> Value {
    let mut p = DodecahedronProjection::new().unwrap();
    let ra = proj_call(&mut p, a, da, 0.5);
    let (f1, s1, _) = view_json(&p);
    let rb = proj_call(&mut p, b, db, 0.5);
    let (f2, s2, _) = view_json(&p);
    json!({"op": "pair", "a": key_json(a), "b": key_json(b), "da": da, "db": db,
           "a_ok": ra == cold[&(a.origin, a.idx, a.refl, da)], "b_after_a": rb, "b_cold": cold[&(b.origin, b.idx, b.refl, db)],
           "face_mid": f1, "sph_mid": s1, "face_end": f2, "sph_end": s2})
}

// ---- (1) histories on real threads, replayed at call granularity ----
enum Cmd { Call(Key, u8, f64), Quit }
struct StepOut { result: String, before: (Vec<usize>, Vec<usize>, usize), after: (Vec<usize>, Vec<usize>, usize) }

fn history_events(t: &mut Trace, calls: &[(usize, Key, u8)], hist_id: u64) -> u64 {
    // one OS thread per model thread, each using ITS thread-local projection; commands are issued in history order
    let nthreads = calls.iter().map(|c| c.0).max().unwrap_or(1);
    let mut txs = vec![];
    let (rtx, rrx) = mpsc::channel::<StepOut>();
    let mut handles = vec![];
    for _ in 0..nthreads {
        let (tx, rx) = mpsc::channel::<Cmd>();
        let rtx = rtx.clone();
        txs.push(tx);
        handles.push(std::thread::spawn(move || {
            while let Ok(Cmd::Call(k, dir, j)) = rx.recv() {
                let proj = DodecahedronProjection::get_thread_local();
                let before = view_json(proj);
                let result = proj_call(proj, k, dir, j);
                let after = view_json(proj);
                rtx.send(StepOut { result, before, after }).unwrap();
            }
        }));
    }
    t.emit(json!({"op": "reset"}));
    let mut n = 0;
    for (seq, &(th, k, dir)) in calls.iter().enumerate() {
        txs[th - 1].send(Cmd::Call(k, dir, 0.5)).unwrap();
        let o = rrx.recv().unwrap();
        let mut cold = DodecahedronProjection::new().unwrap();
        let cold_result = proj_call(&mut cold, k, dir, 0.5);
        t.emit(json!({"op": "projstep", "hist": hist_id, "seq": seq, "thread": th, "key": key_json(k), "dir": dir,
                      "result": o.result, "cold": cold_result, "instance": o.before.2.to_string(), "instance_after": o.after.2.to_string(),
                      "face_before": o.before.0, "sph_before": o.before.1, "face_after": o.after.0, "sph_after": o.after.1}));
        n += 1;
    }
    for tx in txs { tx.send(Cmd::Quit).ok(); }
    for h in handles { h.join().ok(); }
    t.cut();
    n
}

// ---- (3)/(4) public API purity ----
fn fnv(s: &str) -> String {
    let mut h: u64 = 0xcbf29ce484222325;
    for b in s.bytes() { h ^= b as u64; h = h.wrapping_mul(0x100000001b3); }
    format!("{:016x}", h)
}

fn ll_bits(p: LonLat) -> String { bits2(p.longitude(), p.latitude()) }

/// the catalogue of public calls; each returns a bit-exact rendering of its result
pub fn public_call(i: usize) -> (String, String) {
    let pts = [(12.5, 41.9), (-122.4, 37.8), (179.9999, -16.5), (-179.9999, 66.6), (0.0, 0.0), (100.0, 89.9), (-45.0, -89.5), (31.7, 31.7), (151.2, -33.9), (-70.6, -33.4)];
    let ress = [0, 1, 2, 3, 5, 8, 12, 17, 23, 29];
    let (lon, lat) = pts[i % pts.len()];
    let r = ress[(i / pts.len()) % ress.len()];
    let kind = (i / (pts.len() * ress.len())) % 7;
    let cell = a5::lonlat_to_cell(LonLat::new(lon, lat), r);
    let render = |v: Result<String, String>| match v { Ok(s) => s, Err(e) => format!("err:{}", e) };
    match kind {
        0 => (format!("lonlat_to_cell({},{},{})", lon, lat, r), render(cell.map(|c| format!("{:x}", c)))),
        1 => (format!("cell_to_lonlat(lonlat_to_cell({},{},{}))", lon, lat, r), render(cell.and_then(a5::cell_to_lonlat).map(ll_bits))),
        2 => (format!("cell_to_boundary(lonlat_to_cell({},{},{}))", lon, lat, r),
              render(cell.and_then(|c| a5::cell_to_boundary(c, None)).map(|b| b.into_iter().map(ll_bits).collect::<Vec<_>>().join(",")))),
        3 => (format!("children(parent(lonlat_to_cell({},{},{})))", lon, lat, r),
              render(cell.and_then(|c| a5::cell_to_parent(c, None)).and_then(|p| a5::cell_to_children(p, None)).map(|v| format!("{:x?}", v)))),
        4 => (format!("compact(uncompact(lonlat_to_cell({},{},{})))", lon, lat, r),
              render(cell.and_then(|c| a5::uncompact(&[c], (r + 2).min(29))).and_then(|v| a5::compact(&v)).map(|v| format!("{:x?}", v)))),
        5 => (format!("cell_area({})+num_cells", r), format!("{:016x}:{}", a5::cell_area(r).to_bits(), a5::get_num_cells(r))),
        _ => (format!("boundary_segments3(lonlat_to_cell({},{},{}))", lon, lat, r),
              render(cell.and_then(|c| a5::cell_to_boundary(c, Some(a5::core::cell::CellToBoundaryOptions { closed_ring: false, segments: Some(3) })))
                     .map(|b| b.into_iter().map(ll_bits).collect::<Vec<_>>().join(",")))),
    }
}
pub const N_PUBLIC: usize = 700;

fn in_fresh_thread<T: Send + 'static, F: FnOnce() -> T + Send + 'static>(f: F) -> T {
    std::thread::spawn(f).join().unwrap()
}

/// child process body for (4): N threads released together, each running its own slice of the catalogue from cold
pub fn child_concurrent(seed: u64, nthreads: usize) {
    let barrier = Arc::new(Barrier::new(nthreads));
    let mut hs = vec![];
    for th in 0..nthreads {
        let b = barrier.clone();
        hs.push(std::thread::spawn(move || {
            let mut rng = Rng::new(seed * 1000 + th as u64);
            let calls: Vec<usize> = (0..12).map(|_| rng.below(N_PUBLIC as u64) as usize).collect();
            b.wait();
            let out: Vec<(usize, String)> = calls.iter().map(|&i| (i, fnv(&public_call(i).1))).collect();
            let inst = a5::verif::cache_view().instance;
            b.wait(); // keep every thread (and its instance) alive until all have finished
            (out, inst)
        }));
    }
    let mut all = vec![];
    let mut insts = vec![];
    for h in hs {
        let (o, i) = h.join().unwrap();
        all.push(o.into_iter().map(|(i, s)| json!([i, s])).collect::<Vec<_>>());
        insts.push(i.to_string());
    }
    println!("{}", json!({"threads": all, "instances": insts}));
}

pub fn gen_c13(tier: &str, seed: u64, out: &str, mc: Option<&str>) -> Value {
    let mut rng = Rng::new(seed ^ 0xC13);
    let mut t = Trace::new(out, "c13", 300);
    // cold reference of every key/direction
    let keys = all_keys();
    let mut cold = std::collections::HashMap::new();
    for &k in &keys { for d in 0..2u8 {
        let mut p = DodecahedronProjection::new().unwrap();
        cold.insert((k.origin, k.idx, k.refl, d), proj_call(&mut p, k, d, 0.5));
    } }
    // (2) pairs
    let mut pairs: Vec<(Key, Key)> = vec![];
    if tier == "thorough" {
        for &a in &keys { for &b in &keys { pairs.push((a, b)); } }
    } else {
        let slot = |k: Key| 10 * k.origin + k.idx + if k.refl { 120 } else { 0 };
        for &a in &keys { for &b in &keys {
            let d = (slot(a) as i64 - slot(b) as i64).abs();
            if a == b || (a.idx == b.idx && (a.origin + 1) % 12 == b.origin) || [10, 20, 100, 110, 120].contains(&d) && a.origin <= 2 { pairs.push((a, b)); }
        } }
        for _ in 0..3000 { pairs.push((*rng.pick(&keys), *rng.pick(&keys))); }
    }
    let mut n_pairs = 0u64;
    for (i, (a, b)) in pairs.iter().enumerate() {
        t.emit(pair_event(*a, *b, (i % 2) as u8, ((i / 2) % 2) as u8, &cold));
        n_pairs += 1;
        t.cut();
    }
    // (1) histories from the model checker, concretised on real keys (abstract origin o -> face (o*5+shift) % 12, idx kept + rotation)
    let mut n_hist = 0u64;
    let mut n_steps = 0u64;
    if let Some(p) = mc {
        if let Ok(txt) = std::fs::read_to_string(p) {
            let lines: Vec<&str> = txt.lines().collect();
            let stride = if tier == "thorough" { 1 } else { (lines.len() / 600).max(1) };
            for (li, line) in lines.iter().enumerate() {
                if li % stride != 0 { continue; }
                let v: Value = match serde_json::from_str(line) { Ok(v) => v, Err(_) => continue };
                if v["kind"] != "history" { continue; }
                let shift = rng.below(12) as usize;
                let rot = rng.below(10) as usize;
                let calls: Vec<(usize, Key, u8)> = v["calls"].as_array().unwrap().iter().enumerate().map(|(ci, c)| {
                    (c["t"].as_u64().unwrap() as usize,
                     Key { origin: (c["origin"].as_u64().unwrap() as usize * 5 + shift) % 12, idx: (c["idx"].as_u64().unwrap() as usize + rot) % 10, refl: c["refl"].as_bool().unwrap() },
                     ((ci + li) % 2) as u8)
                }).collect();
                n_steps += history_events(&mut t, &calls, li as u64);
                n_hist += 1;
            }
        }
    }
    // long random single-thread histories touching many slots
    for h in 0..(if tier == "thorough" { 40 } else { 6 }) {
        let calls: Vec<(usize, Key, u8)> = (0..120).map(|_| (1 + rng.below(3) as usize, *rng.pick(&keys), rng.below(2) as u8)).collect();
        n_steps += history_events(&mut t, &calls, 1_000_000 + h);
        n_hist += 1;
    }
    // (3) public API: cold thread vs warm repeat vs after a random history vs many threads at once
    let mut per_call: Vec<Vec<(String, String)>> = vec![vec![]; N_PUBLIC];
    let mut names: Vec<String> = vec![String::new(); N_PUBLIC];
    for i in 0..N_PUBLIC {
        let (name, cold_r) = in_fresh_thread(move || public_call(i));
        names[i] = name;
        per_call[i].push(("cold thread".into(), cold_r));
    }
    // one long-lived thread: random order, each twice (warm)
    let order: Vec<usize> = { let mut o: Vec<usize> = (0..N_PUBLIC).collect(); rng.shuffle(&mut o); o };
    let o2 = order.clone();
    let warm = in_fresh_thread(move || o2.iter().map(|&i| (i, public_call(i).1, public_call(i).1)).collect::<Vec<_>>());
    for (i, a, b) in warm { per_call[i].push(("after random history".into(), a)); per_call[i].push(("warm repeat".into(), b)); }
    // a thread that starts only AFTER another thread has filled every memo slot and finished (state leaking through
    // anything shared between threads would show here), and one that runs while such a "warm" thread is still alive
    let warm_all = || { let proj = DodecahedronProjection::get_thread_local(); for &k in &all_keys() { let _ = proj_call(proj, k, 0, 0.5); let _ = proj_call(proj, k, 1, 0.5); } };
    in_fresh_thread(warm_all);
    let after: Vec<(usize, String)> = in_fresh_thread(|| (0..N_PUBLIC).step_by(3).map(|i| (i, public_call(i).1)).collect());
    for (i, r) in after { per_call[i].push(("fresh thread after another thread filled all slots".into(), r)); }
    {
        let (tx, rx) = mpsc::channel::<()>();
        let (tx2, rx2) = mpsc::channel::<()>();
        let keeper = std::thread::spawn(move || { let proj = DodecahedronProjection::get_thread_local(); for &k in &all_keys() { let _ = proj_call(proj, k, 1, 0.5); } tx2.send(()).unwrap(); rx.recv().ok(); });
        rx2.recv().unwrap();
        let during: Vec<(usize, String)> = in_fresh_thread(|| (1..N_PUBLIC).step_by(3).map(|i| (i, public_call(i).1)).collect());
        tx.send(()).unwrap();
        keeper.join().unwrap();
        for (i, r) in during { per_call[i].push(("fresh thread beside a live fully warmed thread".into(), r)); }
    }
    // 16 threads at once in this process
    let barrier = Arc::new(Barrier::new(16));
    let mut hs = vec![];
    for th in 0..16usize {
        let b = barrier.clone();
        let mut r2 = Rng::new(seed * 77 + th as u64);
        let mine: Vec<usize> = (0..60).map(|_| r2.below(N_PUBLIC as u64) as usize).collect();
        hs.push(std::thread::spawn(move || { b.wait(); mine.iter().map(|&i| (i, public_call(i).1)).collect::<Vec<_>>() }));
    }
    for h in hs { for (i, r) in h.join().unwrap() { per_call[i].push(("16 concurrent threads".into(), r)); } }
    // (4) cold concurrent starts in fresh processes
    let me = std::env::current_exe().unwrap();
    let nproc = if tier == "thorough" { 300 } else { 40 };
    let mut n_proc = 0u64;
    for pi in 0..nproc {
        let run = || std::process::Command::new(&me).arg("c13child").arg(format!("{}", seed * 100000 + pi)).arg("16").env("RUST_BACKTRACE", "0").output();
        let mut outp = run();
        // a failed spawn on a busy machine is retried; three failures in a row are believed (a crash under concurrency)
        for _ in 0..2 { if outp.as_ref().map(|o| o.status.success()).unwrap_or(false) { break; } std::thread::sleep(std::time::Duration::from_millis(300)); outp = run(); }
        let ok = outp.as_ref().map(|o| o.status.success()).unwrap_or(false);
        if let (true, Ok(o)) = (ok, outp) {
            if let Ok(v) = serde_json::from_slice::<Value>(o.stdout.split(|&b| b == b'\n').next().unwrap_or(&[])) {
                for (ti, th) in v["threads"].as_array().unwrap().iter().enumerate() {
                    for c in th.as_array().unwrap() {
                        let i = c[0].as_u64().unwrap() as usize;
                        per_call[i].push((format!("fresh process {} thread {} (hash)", pi, ti), c[1].as_str().unwrap().to_string()));
                    }
                }
                t.emit(json!({"op": "instances", "where": format!("process {}", pi), "addresses": v["instances"]}));
                n_proc += 1;
                continue;
            }
        }
        t.emit(json!({"op": "instances", "where": format!("process {} FAILED", pi), "addresses": ["crash", "crash"]}));
    }
    t.cut();
    let mut n_pure = 0u64;
    let mut n_ctx = 0u64;
    for i in 0..N_PUBLIC {
        let full = per_call[i][0].1.clone();
        let results: Vec<String> = per_call[i].iter().map(|(c, r)| if c.ends_with("(hash)") { r.clone() } else { fnv(r) }).collect();
        let contexts: Vec<&String> = per_call[i].iter().map(|x| &x.0).collect();
        n_ctx += results.len() as u64;
        t.emit(json!({"op": "purity", "call": names[i], "results": results, "contexts": contexts, "cold_value": full.chars().take(120).collect::<String>()}));
        n_pure += 1;
        t.cut();
    }
    t.finish();
    json!({"files": t.files, "events": t.events, "key_pairs": n_pairs, "histories": n_hist, "history_steps": n_steps, "public_calls": n_pure,
           "public_call_contexts": n_ctx, "cold_processes": n_proc,
           "samples": [pair_event(keys[3], keys[123], 0, 1, &cold), json!({"call": names[17], "contexts": per_call[17].len()})]})
}
