// C13: every call is a pure function of its arguments -- across histories, cache states and threads.
use crate::util::*;
use a5::coordinate_systems::Face;
use a5::projections::dodecahedron::DodecahedronProjection;
use a5::LonLat;
use serde_json::{json, Value};
use std::sync::{mpsc, Arc, Barrier};

const PI: f64 = std::f64::consts::PI;

#[derive(Clone, Copy, Debug, PartialEq)]
pub struct Key { pub origin: usize, pub idx: usize, pub refl: bool }

/// a face-plane point that makes forward/inverse use exactly the memo key (origin, idx, refl)
fn face_point(k: Key, jitter: f64) -> Face {
    let sector = PI / 5.0;
    let mut gamma = (k.idx as f64 + 0.3 + 0.4 * jitter) * sector;
    if gamma > PI { gamma -= 2.0 * PI; }
    let seg = gamma / (2.0 * sector);
    let beta = (seg - seg.round()) * 2.0 * sector;
    let d = if k.refl { 0.66 } else { 0.2 + 0.3 * jitter };
    let rho = d / beta.cos();
    Face::new(rho * gamma.cos(), rho * gamma.sin())
}

fn bits2(a: f64, b: f64) -> String { format!("{:016x}{:016x}", a.to_bits(), b.to_bits()) }

/// one projection call on `proj`; dir 0 = inverse(face point), 1 = forward(sphere point)
fn proj_call(proj: &mut DodecahedronProjection, k: Key, dir: u8, jitter: f64) -> String {
    let fp = face_point(k, jitter);
    if dir == 0 {
        match proj.inverse(fp, k.origin as u8) { Ok(s) => bits2(s.theta().get(), s.phi().get()), Err(e) => format!("err:{}", e) }
    } else {
        // the sphere point comes from an unrelated scratch instance so that producing it does not warm `proj`
        let mut scratch = DodecahedronProjection::new().unwrap();
        let sp = scratch.inverse(fp, k.origin as u8).unwrap();
        match proj.forward(sp, k.origin as u8) { Ok(f) => bits2(f.x(), f.y()), Err(e) => format!("err:{}", e) }
    }
}

fn filled(v: &[bool]) -> Vec<usize> { v.iter().enumerate().filter(|x| *x.1).map(|x| x.0).collect() }
fn view_json(proj: &DodecahedronProjection) -> (Vec<usize>, Vec<usize>, usize) {
    let v = proj.verif_cache_view();
    (filled(&v.face_slots), filled(&v.spherical_slots), v.instance)
}
fn key_json(k: Key) -> Value { json!([k.origin, k.idx, k.refl as u8]) }

fn all_keys() -> Vec<Key> {
    let mut v = vec![];
    for refl in [false, true] { for origin in 0..12 { for idx in 0..10 { v.push(Key { origin, idx, refl }); } } }
    v
}

/// (2) ordered pairs of memo keys on a fresh instance: B after A must equal B cold, bit for bit
fn pair_event(a: Key, b: Key, da: u8, db: u8, cold: &std::collections::HashMap<(usize, usize, bool, u8), String>) -> Value {
    let mut p = DodecahedronProjection::new().unwrap();
    let ra = proj_call(&mut p, a, da, 0.5);
    let (f1, s1, _) = view_json(&p);
    let rb = proj_call(&mut p, b, db, 0.5);
    let (f2, s2, _) = view_json(&p);
    json!({"op": "pair", "a": key_json(a), "b": key_json(b), "da": da, "db": db,
           "a_ok": ra == cold[&(a.origin, a.idx, a.refl, da)], "b_after_a": rb, "b_cold": cold[&(b.origin, b.idx, b.refl, db)],
           "face_mid": f1, "sph_mid": s1, "face_end": f2, "sph_end": s2})
}

// ---- (1) histories on real threads, replayed at call granularity ----
enum Cmd { Call(Key, u8, f64), Quit }
struct StepOut { result: String, before: (Vec<usize>, Vec<usize>, usize), after: (Vec<usize>, Vec<usize>, usize) }

fn history_events(t: &mut Trace, calls: &[(usize, Key, u8)], hist_id: u64) -> u64 {
    // one OS thread per model thread, each using ITS thread-local projection; commands are issued in history order
    let nthreads = calls.iter().map(|c| c.0).max().unwrap_or(1);
    let mut txs = vec![];
    let (rtx, rrx) = mpsc::channel::<StepOut>();
    let mut handles = vec![];
    for _ in 0..nthreads {
        let (tx, rx) = mpsc::channel::<Cmd>();
        let rtx = rtx.clone();
        txs.push(tx);
        handles.push(std::thread::spawn(move || {
            while let Ok(Cmd::Call(k, dir, j)) = rx.recv() {
                let proj = DodecahedronProjection::get_thread_local();
                let before = view_json(proj);
                let result = proj_call(proj, k, dir, j);
                let after = view_json(proj);
                rtx.send(StepOut { result, before, after }).unwrap();
            }
        }));
    }
    t.emit(json!({"op": "reset"}));
    let mut n = 0;
    for (seq, &(th, k, dir)) in calls.iter().enumerate() {
        txs[th - 1].send(Cmd::Call(k, dir, 0.5)).unwrap();
        let o = rrx.recv().unwrap();
        let mut cold = DodecahedronProjection::new().unwrap();
        let cold_result = proj_call(&mut cold, k, dir, 0.5);
        t.emit(json!({"op": "projstep", "hist": hist_id, "seq": seq, "thread": th, "key": key_json(k), "dir": dir,
                      "result": o.result, "cold": cold_result, "instance": o.before.2.to_string(), "instance_after": o.after.2.to_string(),
                      "face_before": o.before.0, "sph_before": o.before.1, "face_after": o.after.0, "sph_after": o.after.1}));
        n += 1;
    }
    for tx in txs { tx.send(Cmd::Quit).ok(); }
    for h in handles { h.join().ok(); }
    t.cut();
    n
}

// ---- (3)/(4) public API purity ----
fn fnv(s: &str) -> String {
    let mut h: u64 = 0xcbf29ce484222325;
    for b in s.bytes() { h ^= b as u64; h = h.wrapping_mul(0x100000001b3); }
    format!("{:016x}", h)
}

fn ll_bits(p: LonLat) -> String { bits2(p.longitude(), p.latitude()) }

/// the catalogue of public calls; each returns a bit-exact rendering of its result
pub fn public_call(i: usize) -> (String, String) {
    let pts = [(12.5, 41.9), (-122.4, 37.8), (179.9999, -16.5), (-179.9999, 66.6), (0.0, 0.0), (100.0, 89.9), (-45.0, -89.5), (31.7, 31.7), (151.2, -33.9), (-70.6, -33.4)];
    let ress = [0, 1, 2, 3, 5, 8, 12, 17, 23, 29];
    let (lon, lat) = pts[i % pts.len()];
    let r = ress[(i / pts.len()) % ress.len()];
    let kind = (i / (pts.len() * ress.len())) % 7;
    let cell = a5::lonlat_to_cell(LonLat::new(lon, lat), r);
    let render = |v: Result<String, String>| match v { Ok(s) => s, Err(e) => format!("err:{}", e) };
    match kind {
        0 => (format!("lonlat_to_cell({},{},{})", lon, lat, r), render(cell.map(|c| format!("{:x}", c)))),
        1 => (format!("cell_to_lonlat(lonlat_to_cell({},{},{}))", lon, lat, r), render(cell.and_then(a5::cell_to_lonlat).map(ll_bits))),
        2 => (format!("cell_to_boundary(lonlat_to_cell({},{},{}))", lon, lat, r),
              render(cell.and_then(|c| a5::cell_to_boundary(c, None)).map(|b| b.into_iter().map(ll_bits).collect::<Vec<_>>().join(",")))),
        3 => (format!("children(parent(lonlat_to_cell({},{},{})))", lon, lat, r),
              render(cell.and_then(|c| a5::cell_to_parent(c, None)).and_then(|p| a5::cell_to_children(p, None)).map(|v| format!("{:x?}", v)))),
        4 => (format!("compact(uncompact(lonlat_to_cell({},{},{})))", lon, lat, r),
              render(cell.and_then(|c| a5::uncompact(&[c], (r + 2).min(29))).and_then(|v| a5::compact(&v)).map(|v| format!("{:x?}", v)))),
        5 => (format!("cell_area({})+num_cells", r), format!("{:016x}:{}", a5::cell_area(r).to_bits(), a5::get_num_cells(r))),
        _ => (format!("boundary_segments3(lonlat_to_cell({},{},{}))", lon, lat, r),
              render(cell.and_then(|c| a5::cell_to_boundary(c, Some(a5::core::cell::CellToBoundaryOptions { closed_ring: false, segments: Some(3) })))
                     .map(|b| b.into_iter().map(ll_bits).collect::<Vec<_>>().join(",")))),
    }
}
pub const N_PUBLIC: usize = 700;

fn in_fresh_thread<T: Send + 'static, F: FnOnce() -> T + Send + 'static>(f: F) -> T {
    std::thread::spawn(f).join().unwrap()
}

/// child process body for (4): N threads released together, each running its own slice of the catalogue from cold
pub fn child_concurrent(seed: u64, nthreads: usize) {
    let barrier = Arc::new(Barrier::new(nthreads));
    let mut hs = vec![];
    for th in 0..nthreads {
        let b = barrier.clone();
        hs.push(std::thread::spawn(move || {
            let mut rng = Rng::new(seed * 1000 + th as u64);
            let calls: Vec<usize> = (0..12).map(|_| rng.below(N_PUBLIC as u64) as usize).collect();
            b.wait();
            let out: Vec<(usize, String)> = calls.iter().map(|&i| (i, fnv(&public_call(i).1))).collect();
            let inst = a5::verif::cache_view().instance;
            b.wait(); // keep every thread (and its instance) alive until all have finished
            (out, inst)
        }));
    }
    let mut all = vec![];
    let mut insts = vec![];
    for h in hs {
        let (o, i) = h.join().unwrap();
        all.push(o.into_iter().map(|(i, s)| json!([i, s])).collect::<Vec<_>>());
        insts.push(i.to_string());
    }
    println!("{}", json!({"threads": all, "instances": insts}));
}

// ---- structured consecutive pairs of PUBLIC calls ----
// A hidden memo keyed by only some of the fields of its argument answers call B with call A's value when A and B agree
// on those fields.  So: pairs (A, B) of cells agreeing on a SUBSET of (resolution, face, segment, curve position,
// leading six bits, complemented position), each public function on A then on B in one thread, B compared with a cold B.
#[derive(Clone, Copy)]
struct D { res: i32, face: u8, seg: usize, s: u64 }
fn id_of(d: D) -> Option<u64> {
    use a5::core::utils::A5Cell;
    if d.res < 0 || d.res > 29 { return None; }
    let h = if d.res >= 2 { d.res - 1 } else { 0 };
    if h < 32 && d.s >= (1u64 << (2 * h)).max(1) && h > 0 { return None; }
    if h == 0 && d.s != 0 { return None; }
    a5::core::serialization::serialize(&A5Cell { origin_id: d.face, segment: if d.res == 0 { 0 } else { d.seg }, s: d.s, resolution: d.res }).ok()
}
fn partners(d: D) -> Vec<D> {
    let mut v = vec![];
    // same face / segment / numeric position, other resolution
    for dr in [-3, -1, 1, 2, 5] { v.push(D { res: d.res + dr, ..d }); }
    v.push(D { res: 29, ..d });
    // same position, other face or segment
    v.push(D { face: (d.face + 1) % 12, ..d });
    v.push(D { face: (d.face + 7) % 12, ..d });
    v.push(D { seg: (d.seg + 1) % 5, ..d });
    v.push(D { seg: (d.seg + 3) % 5, ..d });
    // same complemented ("reversed") position at another resolution: 4^h - 1 - s
    if d.res >= 2 { let h = d.res - 1; let comp = ((1u64 << (2 * h)) - 1) - d.s;
        for dr in [-1, 1] { let r2 = d.res + dr; if r2 >= 2 && r2 <= 29 { let h2 = r2 - 1; let m2 = (1u64 << (2 * h2)) - 1; if comp <= m2 { v.push(D { res: r2, s: m2 - comp, ..d }); } } } }
    // same position shifted by one digit (parent / first child / last child)
    if d.res >= 3 { v.push(D { res: d.res - 1, s: d.s >> 2, ..d }); }
    if d.res >= 2 && d.res < 29 { v.push(D { res: d.res + 1, s: d.s << 2, ..d }); v.push(D { res: d.res + 1, s: (d.s << 2) | 3, ..d }); }
    v
}
/// IDs sharing their leading six bits with a base cell / quintant cell (the bits mean "face" at res 0, "5*face+q" above)
fn same_top6(id: u64) -> Vec<u64> {
    let top = id >> 58;
    let mut v = vec![];
    if top < 12 { v.push((top << 58) | (1u64 << 57)); }
    if top < 60 { v.push((top << 58) | (1u64 << 56)); v.push((top << 58) | (1u64 << 55)); v.push((top << 58) | (2u64 << 54) | (1u64 << 53)); }
    v.retain(|&x| x != id && a5::core::serialization::deserialize(x).is_ok());
    v
}
const NFN: usize = 7;
fn cell_fn(k: usize, id: u64) -> (String, String) {
    let render = |v: Result<String, String>| match v { Ok(s) => s, Err(e) => format!("err:{}", e) };
    let ring = |b: Vec<LonLat>| b.into_iter().map(ll_bits).collect::<Vec<_>>().join(",");
    match k {
        0 => (format!("cell_to_lonlat({:x})", id), render(a5::cell_to_lonlat(id).map(ll_bits))),
        1 => (format!("cell_to_boundary({:x})", id), render(a5::cell_to_boundary(id, None).map(ring))),
        2 => (format!("cell_to_boundary({:x},3,open)", id), render(a5::cell_to_boundary(id, Some(a5::core::cell::CellToBoundaryOptions { closed_ring: false, segments: Some(3) })).map(ring))),
        3 => (format!("cell_to_parent({:x})", id), render(a5::cell_to_parent(id, None).map(|x| format!("{:x}", x)))),
        4 => (format!("cell_to_children({:x})", id), render(a5::cell_to_children(id, None).map(|x| format!("{:x?}", x)))),
        5 => (format!("lonlat_to_cell(centre({:x}))", id), render(a5::cell_to_lonlat(id).and_then(|c| a5::lonlat_to_cell(c, a5::get_resolution(id))).map(|x| format!("{:x}", x)))),
        _ => (format!("uncompact([{:x}],+1)", id), render(a5::uncompact(&[id], (a5::get_resolution(id) + 1).min(29)).map(|x| format!("{:x?}", x)))),
    }
}

fn structured_pairs(t: &mut Trace, tier: &str, rng: &mut Rng) -> (u64, u64) {
    let nbase = if tier == "thorough" { 600 } else { 90 };
    let mut pairs: Vec<(u64, u64)> = vec![];
    for i in 0..nbase {
        let res = [0, 1, 2, 3, 5, 8, 9, 10, 11, 14, 20, 27, 28, 29][i % 14];
        let h = if res >= 2 { res - 1 } else { 0 };
        let s = if h == 0 { 0 } else { match i % 3 { 0 => rng.next() & ((1u64 << (2 * h)) - 1), 1 => rng.below(4u64.pow((h as u32).min(5))), _ => ((1u64 << (2 * h)) - 1) - rng.below(16).min((1u64 << (2 * h)) - 1) } };
        let d = D { res, face: rng.below(12) as u8, seg: rng.below(5) as usize, s };
        let a = match id_of(d) { Some(x) => x, None => continue };
        for q in partners(d) { if let Some(b) = id_of(q) { if b != a { pairs.push((a, b)); pairs.push((b, a)); } } }
        for b in same_top6(a) { pairs.push((a, b)); pairs.push((b, a)); }
    }
    let mut n_pairs = 0u64;
    let mut n_calls = 0u64;
    // one long-lived thread runs  f(A); f(B)  for every pair and every function; every f(B) is also computed cold
    let plist = pairs.clone();
    let warm: Vec<(usize, usize, String, String)> = in_fresh_thread(move || {
        let mut out = vec![];
        for (pi, (a, b)) in plist.iter().enumerate() { for k in 0..NFN { let _ = cell_fn(k, *a); let (name, r) = cell_fn(k, *b); out.push((pi, k, name, r)); } }
        out
    });
    // cross-function order as well: g(A) for all g, then f(B)
    let plist2 = pairs.clone();
    let warm2: Vec<(usize, usize, String)> = in_fresh_thread(move || {
        let mut out = vec![];
        for (pi, (a, b)) in plist2.iter().enumerate() { for k in 0..NFN { let _ = cell_fn((k + 1) % NFN, *a); let _ = cell_fn((k + 3) % NFN, *a); let (_, r) = cell_fn(k, *b); out.push((pi, k, r)); } }
        out
    });
    let mut cold_cache: std::collections::HashMap<(u64, usize), String> = std::collections::HashMap::new();
    for (idx, (pi, k, name, r)) in warm.iter().enumerate() {
        let b = pairs[*pi].1;
        let cold = cold_cache.entry((b, *k)).or_insert_with(|| { let kk = *k; in_fresh_thread(move || cell_fn(kk, b).1) }).clone();
        let r2 = &warm2[idx].2;
        t.emit(json!({"op": "purity", "call": format!("{} after the same call on {:x}", name, pairs[*pi].0),
                      "results": [fnv(&cold), fnv(r), fnv(r2)], "contexts": ["cold thread", "directly after f(A)", "after g(A), g'(A)"],
                      "cold_value": cold.chars().take(80).collect::<String>()}));
        n_calls += 1;
        if idx % 200 == 0 { t.cut(); }
    }
    n_pairs += pairs.len() as u64;
    // same POINT at two resolutions (fine first, then coarse; and the reverse), on edge/seam-hugging and uniform points
    let npts = if tier == "thorough" { 4000 } else { 500 };
    let mut cold_lk: Vec<(f64, f64, i32, i32)> = vec![];
    for i in 0..npts {
        let z = 2.0 * rng.f64() - 1.0;
        let mut p = (360.0 * rng.f64() - 180.0, z.asin().to_degrees());
        let f = [2, 3, 5, 8, 12, 16, 24, 29][i % 8];
        if i % 2 == 0 {
            // a point just across an edge of a res-f cell from its centre: in the overhang of its neighbours
            if let Ok(c) = a5::lonlat_to_cell(LonLat::new(p.0, p.1), f) { if let (Ok(cc), Ok(ring)) = (a5::cell_to_lonlat(c), a5::cell_to_boundary(c, None)) {
                let v = ring[rng.below(ring.len() as u64) as usize]; let tt = 0.9 + 0.2 * rng.f64();
                p = (cc.longitude() + tt * (v.longitude() - cc.longitude()), (cc.latitude() + tt * (v.latitude() - cc.latitude())).clamp(-90.0, 90.0));
            } }
        }
        let c = [0, 1, 0, 1, 2, 4][i % 6].min(f);
        cold_lk.push((p.0, p.1, f, c));
    }
    let lk = cold_lk.clone();
    let warm_lk: Vec<(String, String)> = in_fresh_thread(move || lk.iter().map(|&(lo, la, f, c)| {
        let _ = a5::lonlat_to_cell(LonLat::new(lo, la), f);
        let r = a5::lonlat_to_cell(LonLat::new(lo, la), c);
        let _ = a5::lonlat_to_cell(LonLat::new(lo, la), c);
        let r_up = a5::lonlat_to_cell(LonLat::new(lo, la), f);
        (format!("{:x?}", r), format!("{:x?}", r_up))
    }).collect());
    for (i, &(lo, la, f, c)) in cold_lk.iter().enumerate() {
        let cold_c = in_fresh_thread(move || format!("{:x?}", a5::lonlat_to_cell(LonLat::new(lo, la), c)));
        let cold_f = in_fresh_thread(move || format!("{:x?}", a5::lonlat_to_cell(LonLat::new(lo, la), f)));
        t.emit(json!({"op": "purity", "call": format!("lonlat_to_cell(({:?},{:?}),{}) after the same point at res {}", lo, la, c, f),
                      "results": [fnv(&cold_c), fnv(&warm_lk[i].0)], "contexts": ["cold thread", "after the finer lookup of the same point"], "cold_value": cold_c}));
        t.emit(json!({"op": "purity", "call": format!("lonlat_to_cell(({:?},{:?}),{}) after the same point at res {}", lo, la, f, c),
                      "results": [fnv(&cold_f), fnv(&warm_lk[i].1)], "contexts": ["cold thread", "after the coarser lookup of the same point"], "cold_value": cold_f}));
        n_calls += 2;
        if i % 100 == 0 { t.cut(); }
    }
    t.cut();
    (n_pairs, n_calls)
}

/// spatially coherent histories: raster scans with rows of various lengths and random walks, thousands of lookups on one
/// thread (recently-used lists and their eviction bookkeeping only misbehave after N DISTINCT neighbours); every answer
/// is compared with the answer of a fresh thread
fn tracks(t: &mut Trace, tier: &str, rng: &mut Rng) -> u64 {
    let ntracks = if tier == "thorough" { 24 } else { 6 };
    let mut n = 0;
    for k in 0..ntracks {
        let res = [10, 14, 20, 27, 12, 18, 25, 8][k % 8];
        let step = 0.7 * crate::geo::cell_size(res).to_degrees();
        let z = 1.6 * rng.f64() - 0.8;
        let (lon0, lat0) = (360.0 * rng.f64() - 180.0, z.asin().to_degrees());
        let mut pts: Vec<(f64, f64)> = vec![];
        if k % 2 == 0 {
            let row = [23usize, 40, 64, 37, 90, 17][k / 2 % 6];
            for i in 0..(row * 30) { pts.push((lon0 + (i % row) as f64 * step / (lat0.to_radians().cos()), lat0 + (i / row) as f64 * step)); }
        } else {
            let (mut lo, mut la) = (lon0, lat0);
            for _ in 0..1500 { lo += (rng.f64() - 0.5) * 3.0 * step / la.to_radians().cos().max(0.1); la = (la + (rng.f64() - 0.5) * 3.0 * step).clamp(-89.0, 89.0); pts.push((lo, la)); }
        }
        let p2 = pts.clone();
        let warm: Vec<String> = in_fresh_thread(move || p2.iter().map(|&(lo, la)| format!("{:x?}", a5::lonlat_to_cell(LonLat::new(lo, la), res))).collect());
        // cold answers: fresh thread per call is too slow for thousands; use a thread that sees the points in a scrambled order
        // and a third one in reverse order -- three histories that share nothing but the calls themselves
        let mut order: Vec<usize> = (0..pts.len()).collect(); rng.shuffle(&mut order);
        let (p3, o3) = (pts.clone(), order.clone());
        let scr: Vec<(usize, String)> = in_fresh_thread(move || o3.iter().map(|&i| (i, format!("{:x?}", a5::lonlat_to_cell(LonLat::new(p3[i].0, p3[i].1), res)))).collect());
        let mut scrambled = vec![String::new(); pts.len()]; for (i, s) in scr { scrambled[i] = s; }
        let p4 = pts.clone();
        let rev: Vec<String> = in_fresh_thread(move || { let mut v: Vec<String> = p4.iter().rev().map(|&(lo, la)| format!("{:x?}", a5::lonlat_to_cell(LonLat::new(lo, la), res))).collect(); v.reverse(); v });
        for i in 0..pts.len() {
            // a fresh-thread answer for a sample, and always when the three histories disagree
            let disagree = warm[i] != scrambled[i] || warm[i] != rev[i];
            let mut results = vec![fnv(&warm[i]), fnv(&scrambled[i]), fnv(&rev[i])];
            let mut ctx = vec!["scan order".to_string(), "scrambled order".to_string(), "reverse order".to_string()];
            if disagree || i % 97 == 0 { let (lo, la) = pts[i]; let cold = in_fresh_thread(move || format!("{:x?}", a5::lonlat_to_cell(LonLat::new(lo, la), res))); results.insert(0, fnv(&cold)); ctx.insert(0, "cold thread".into()); }
            if disagree || i % 23 == 0 {
                t.emit(json!({"op": "purity", "call": format!("lonlat_to_cell(({:?},{:?}),{}) inside track {}", pts[i].0, pts[i].1, res, k), "results": results, "contexts": ctx, "cold_value": warm[i].clone()}));
                n += 1;
            }
        }
        t.cut();
    }
    n
}

/// generation counters wrap: P, then the same other call 2^k - 1 (resp. 2^k, 2^k + 1) times, then P again
fn wraparound(t: &mut Trace, rng: &mut Rng) -> u64 {
    let mut n = 0;
    for (k, reps) in [(8u32, 255usize), (8, 256), (16, 65535), (16, 65536), (16, 65537)] {
        for trial in 0..2 {
            let z = 2.0 * rng.f64() - 1.0;
            let (p, q) = ((360.0 * rng.f64() - 180.0, z.asin().to_degrees()), (360.0 * rng.f64() - 180.0, (2.0 * rng.f64() - 1.0).asin().to_degrees()));
            let r = [5, 12, 9, 17][(trial + k as usize) % 4];
            let cold = in_fresh_thread(move || format!("{:x?}", a5::lonlat_to_cell(LonLat::new(p.0, p.1), r)));
            let after = in_fresh_thread(move || {
                let first = format!("{:x?}", a5::lonlat_to_cell(LonLat::new(p.0, p.1), r));
                for _ in 0..reps { let _ = a5::lonlat_to_cell(LonLat::new(q.0, q.1), r); }
                let again = format!("{:x?}", a5::lonlat_to_cell(LonLat::new(p.0, p.1), r));
                let c1 = a5::lonlat_to_cell(LonLat::new(p.0, p.1), r).ok();
                let geo = c1.map(|c| format!("{:?}", a5::cell_to_boundary(c, None).map(|b| b.len()))).unwrap_or_default();
                (first, again, geo)
            });
            t.emit(json!({"op": "purity", "call": format!("lonlat_to_cell(P,{}) before / after {} other lookups", r, reps),
                          "results": [fnv(&cold), fnv(&after.0), fnv(&after.1)], "contexts": ["cold thread", "first call", format!("after {} calls (2^{} boundary)", reps, k)], "cold_value": cold}));
            n += 1;
        }
    }
    t.cut();
    n
}

/// error-then-success pairs: every public function is first called with an argument it must reject (or that makes it fail
/// part-way), then with a valid one on the same thread; the valid answer must be the cold one.  Scratch buffers, partly
/// filled memos and "in progress" flags that an early return forgets to reset only show after a failed call.
fn after_errors(t: &mut Trace, rng: &mut Rng) -> u64 {
    let mut n = 0;
    for trial in 0..12 {
        let res = [2, 5, 9, 14, 20, 27][trial % 6];
        let z = 1.8 * rng.f64() - 0.9;
        let (lon, lat) = (360.0 * rng.f64() - 180.0, z.asin().to_degrees());
        let cell = match a5::lonlat_to_cell(LonLat::new(lon, lat), res) { Ok(c) => c, Err(_) => continue };
        let finer = a5::cell_to_children(cell, Some(res + 1)).map(|v| v[0]).unwrap_or(cell);
        let bad_id = 0xfc00_0000_0000_0001u64;
        // (name, failing call, valid call) -- both as closures returning a printable result
        type F = Box<dyn Fn() -> String + Send + Sync>;
        let cases: Vec<(&str, F, F)> = vec![
            ("uncompact", Box::new(move || format!("{:x?}", a5::uncompact(&[cell, finer, cell], res))), Box::new(move || format!("{:x?}", a5::uncompact(&[cell, cell], res + 1)))),
            ("uncompact (bad id)", Box::new(move || format!("{:x?}", a5::uncompact(&[cell, bad_id], res))), Box::new(move || format!("{:x?}", a5::uncompact(&[finer], res + 2)))),
            ("compact", Box::new(move || format!("{:x?}", a5::compact(&[cell, bad_id]))), Box::new(move || format!("{:x?}", a5::compact(&a5::cell_to_children(cell, Some(res + 1)).unwrap_or_default())))),
            ("cell_to_children", Box::new(move || format!("{:x?}", a5::cell_to_children(cell, Some(res - 1)))), Box::new(move || format!("{:x?}", a5::cell_to_children(cell, Some(res + 1))))),
            ("cell_to_parent", Box::new(move || format!("{:x?}", a5::cell_to_parent(cell, Some(res + 1)))), Box::new(move || format!("{:x?}", a5::cell_to_parent(cell, Some(res - 1))))),
            ("lonlat_to_cell", Box::new(move || format!("{:x?}", a5::lonlat_to_cell(LonLat::new(lon, lat), 31))), Box::new(move || format!("{:x?}", a5::lonlat_to_cell(LonLat::new(lon, lat), res)))),
            ("cell_to_boundary", Box::new(move || format!("{:?}", a5::cell_to_boundary(bad_id, None).map(|b| b.len()))), Box::new(move || format!("{:?}", a5::cell_to_boundary(cell, None).map(|b| b.iter().map(|q| (q.longitude().to_bits(), q.latitude().to_bits())).collect::<Vec<_>>())))),
            ("cell_to_lonlat", Box::new(move || format!("{:?}", a5::cell_to_lonlat(bad_id).map(|q| q.longitude().to_bits()))), Box::new(move || format!("{:?}", a5::cell_to_lonlat(cell).map(|q| (q.longitude().to_bits(), q.latitude().to_bits()))))),
            ("hex_to_u64", Box::new(|| format!("{:x?}", a5::hex_to_u64("zz"))), Box::new(move || format!("{:x?}", a5::hex_to_u64(&a5::u64_to_hex(cell))))),
        ];
        for (name, fail, ok) in cases {
            let ok = std::sync::Arc::new(ok);
            let ok2 = ok.clone();
            let cold = in_fresh_thread(move || ok2());
            let ok3 = ok.clone();
            let (failed, after) = in_fresh_thread(move || { let f1 = fail(); let f2 = fail(); let _ = f2; (f1, ok3()) });
            t.emit(json!({"op": "purity", "call": format!("{} valid call at res {} right after two failing calls of the same function ({})", name, res, failed.chars().take(60).collect::<String>()),
                          "results": [fnv(&cold), fnv(&after)], "contexts": ["cold thread", "after failing calls"], "cold_value": cold.chars().take(120).collect::<String>()}));
            n += 1;
        }
        t.cut();
    }
    n
}

/// saturation histories: one thread is driven until EVERY memo slot the hooks can see is filled (30 face triangles, 240
/// spherical triangles: all faces, all sectors, reflected and not -- boundaries of the cells that straddle the face edges
/// fill the reflected ones), then a catalogue of calls is answered on that saturated thread and compared with fresh
/// threads.  Counters, capacity limits and "table full" paths only show on a thread that has seen everything.
fn saturation(t: &mut Trace, tier: &str, rng: &mut Rng) -> (u64, u64) {
    let rounds = if tier == "thorough" { 4 } else { 1 };
    let (mut n, mut filled_min) = (0u64, 270u64);
    for round in 0..rounds {
        // the catalogue: lookups, centres and boundaries on all faces, at several resolutions, incl. edge-straddling cells
        let mut calls: Vec<(u8, f64, f64, i32)> = vec![];   // (kind, lon, lat, res)
        for _ in 0..(if tier == "thorough" { 400 } else { 150 }) {
            let z = 2.0 * rng.f64() - 1.0;
            calls.push(((rng.below(3)) as u8, 360.0 * rng.f64() - 180.0, z.asin().to_degrees(), [0, 1, 2, 3, 6, 11, 19, 29][rng.below(8) as usize]));
        }
        for sp in crate::geo::special_points().iter().take(160) { calls.push((2, sp.longitude(), sp.latitude(), [2, 5, 9][rng.below(3) as usize])); }
        let answer = |c: &(u8, f64, f64, i32)| -> String {
            let p = LonLat::new(c.1, c.2);
            match c.0 { 0 => format!("{:x?}", a5::lonlat_to_cell(p, c.3)),
                        1 => format!("{:?}", a5::lonlat_to_cell(p, c.3).and_then(a5::cell_to_lonlat).map(|q| (q.longitude().to_bits(), q.latitude().to_bits()))),
                        _ => format!("{:?}", a5::lonlat_to_cell(p, c.3).and_then(|id| a5::cell_to_boundary(id, None)).map(|b| b.iter().map(|q| (q.longitude().to_bits(), q.latitude().to_bits())).collect::<Vec<_>>())) }
        };
        let calls2 = calls.clone();
        let seed = rng.next();
        let (filled, warm, failed_calls): (u64, Vec<String>, Vec<(u8, f64, f64, i32)>) = in_fresh_thread(move || {
            let mut r2 = Rng::new(seed);
            // fill: boundaries of every cell of resolutions 0..3 (straddling cells reflect), then random lookups until full
            let mut failed: Vec<(u8, f64, f64, i32)> = vec![];
            for r in 0..=3 { for id in all_cells(r) {
                let b = a5::cell_to_boundary(id, None); let c = a5::cell_to_lonlat(id);
                // a call that fails while the thread fills up is itself a finding if a fresh thread answers it
                if let (true, Ok(cc)) = (b.is_err(), &c) { if failed.len() < 40 { failed.push((2, cc.longitude(), cc.latitude(), r)); } }
            } }
            let full = |v: &a5::verif::CacheView| v.face_slots.iter().filter(|x| **x).count() + v.spherical_slots.iter().filter(|x| **x).count();
            let mut budget = 20000;
            while full(&a5::verif::cache_view()) < 270 && budget > 0 {
                let z = 2.0 * r2.f64() - 1.0;
                let p = LonLat::new(360.0 * r2.f64() - 180.0, z.asin().to_degrees());
                let rr = 2 + (budget % 5);
                match a5::lonlat_to_cell(p, rr) { Ok(id) => { if a5::cell_to_boundary(id, None).is_err() && failed.len() < 40 { failed.push((2, p.longitude(), p.latitude(), rr)); } }
                                                   Err(_) => { if failed.len() < 40 { failed.push((0, p.longitude(), p.latitude(), rr)); } } }
                budget -= 1;
            }
            let filled = full(&a5::verif::cache_view()) as u64;
            let mut all = calls2.clone(); all.extend(failed.iter().copied());
            (filled, all.iter().map(|c| answer(c)).collect(), failed)
        });
        calls.extend(failed_calls.iter().copied());
        filled_min = filled_min.min(filled);
        // cold answers: a fresh thread per block of 20 calls (a block shares little), in reverse order
        let mut cold = vec![String::new(); calls.len()];
        for (b, chunk) in calls.chunks(20).enumerate() {
            let ch: Vec<(u8, f64, f64, i32)> = chunk.to_vec();
            let ans: Vec<String> = in_fresh_thread(move || ch.iter().rev().map(|c| answer(c)).collect::<Vec<_>>().into_iter().rev().collect());
            for (i, a) in ans.into_iter().enumerate() { cold[b * 20 + i] = a; }
        }
        for (i, c) in calls.iter().enumerate() {
            if warm[i] != cold[i] || i % 3 == 0 || i >= calls.len() - failed_calls.len() {
                let single = { let cc = *c; in_fresh_thread(move || answer(&cc)) };
                t.emit(json!({"op": "purity", "call": format!("kind {} at ({:?},{:?}) res {} on a saturated thread (round {}, {} of 270 memo slots filled)", c.0, c.1, c.2, c.3, round, filled),
                              "results": [fnv(&single), fnv(&cold[i]), fnv(&warm[i])], "contexts": ["cold thread", "fresh thread, block of 20", "saturated thread"],
                              "cold_value": single.chars().take(120).collect::<String>()}));
                n += 1;
            }
        }
        t.cut();
    }
    (n, filled_min)
}

pub fn gen_c13(tier: &str, seed: u64, out: &str, mc: Option<&str>) -> Value {
    let mut rng = Rng::new(seed ^ 0xC13);
    let mut t = Trace::new(out, "c13", 300);
    // cold reference of every key/direction
    let keys = all_keys();
    let mut cold = std::collections::HashMap::new();
    for &k in &keys { for d in 0..2u8 {
        let mut p = DodecahedronProjection::new().unwrap();
        cold.insert((k.origin, k.idx, k.refl, d), proj_call(&mut p, k, d, 0.5));
    } }
    // (2) pairs
    let mut pairs: Vec<(Key, Key)> = vec![];
    if tier == "thorough" {
        for &a in &keys { for &b in &keys { pairs.push((a, b)); } }
    } else {
        let slot = |k: Key| 10 * k.origin + k.idx + if k.refl { 120 } else { 0 };
        for &a in &keys { for &b in &keys {
            let d = (slot(a) as i64 - slot(b) as i64).abs();
            if a == b || (a.idx == b.idx && (a.origin + 1) % 12 == b.origin) || [10, 20, 100, 110, 120].contains(&d) && a.origin <= 2 { pairs.push((a, b)); }
        } }
        for _ in 0..3000 { pairs.push((*rng.pick(&keys), *rng.pick(&keys))); }
    }
    let mut n_pairs = 0u64;
    for (i, (a, b)) in pairs.iter().enumerate() {
        t.emit(pair_event(*a, *b, (i % 2) as u8, ((i / 2) % 2) as u8, &cold));
        n_pairs += 1;
        t.cut();
    }
    // (1) histories from the model checker, concretised on real keys (abstract origin o -> face (o*5+shift) % 12, idx kept + rotation)
    let mut n_hist = 0u64;
    let mut n_steps = 0u64;
    if let Some(p) = mc {
        if let Ok(txt) = std::fs::read_to_string(p) {
            let lines: Vec<&str> = txt.lines().collect();
            let stride = if tier == "thorough" { (lines.len() / 25000).max(1) } else { (lines.len() / 600).max(1) };
            for (li, line) in lines.iter().enumerate() {
                if li % stride != 0 { continue; }
                let v: Value = match serde_json::from_str(line) { Ok(v) => v, Err(_) => continue };
                if v["kind"] != "history" { continue; }
                let shift = rng.below(12) as usize;
                let rot = rng.below(10) as usize;
                let calls: Vec<(usize, Key, u8)> = v["calls"].as_array().unwrap().iter().enumerate().map(|(ci, c)| {
                    (c["t"].as_u64().unwrap() as usize,
                     Key { origin: (c["origin"].as_u64().unwrap() as usize * 5 + shift) % 12, idx: (c["idx"].as_u64().unwrap() as usize + rot) % 10, refl: c["refl"].as_bool().unwrap() },
                     ((ci + li) % 2) as u8)
                }).collect();
                n_steps += history_events(&mut t, &calls, li as u64);
                n_hist += 1;
            }
        }
    }
    // long random single-thread histories touching many slots
    for h in 0..(if tier == "thorough" { 40 } else { 6 }) {
        let calls: Vec<(usize, Key, u8)> = (0..120).map(|_| (1 + rng.below(3) as usize, *rng.pick(&keys), rng.below(2) as u8)).collect();
        n_steps += history_events(&mut t, &calls, 1_000_000 + h);
        n_hist += 1;
    }
    // (3) public API: cold thread vs warm repeat vs after a random history vs many threads at once
    let mut per_call: Vec<Vec<(String, String)>> = vec![vec![]; N_PUBLIC];
    let mut names: Vec<String> = vec![String::new(); N_PUBLIC];
    for i in 0..N_PUBLIC {
        let (name, cold_r) = in_fresh_thread(move || public_call(i));
        names[i] = name;
        per_call[i].push(("cold thread".into(), cold_r));
    }
    // one long-lived thread: random order, each twice (warm)
    let order: Vec<usize> = { let mut o: Vec<usize> = (0..N_PUBLIC).collect(); rng.shuffle(&mut o); o };
    let o2 = order.clone();
    let warm = in_fresh_thread(move || o2.iter().map(|&i| (i, public_call(i).1, public_call(i).1)).collect::<Vec<_>>());
    for (i, a, b) in warm { per_call[i].push(("after random history".into(), a)); per_call[i].push(("warm repeat".into(), b)); }
    // a thread that starts only AFTER another thread has filled every memo slot and finished (state leaking through
    // anything shared between threads would show here), and one that runs while such a "warm" thread is still alive
    let warm_all = || { let proj = DodecahedronProjection::get_thread_local(); for &k in &all_keys() { let _ = proj_call(proj, k, 0, 0.5); let _ = proj_call(proj, k, 1, 0.5); } };
    in_fresh_thread(warm_all);
    let after: Vec<(usize, String)> = in_fresh_thread(|| (0..N_PUBLIC).step_by(3).map(|i| (i, public_call(i).1)).collect());
    for (i, r) in after { per_call[i].push(("fresh thread after another thread filled all slots".into(), r)); }
    {
        let (tx, rx) = mpsc::channel::<()>();
        let (tx2, rx2) = mpsc::channel::<()>();
        let keeper = std::thread::spawn(move || { let proj = DodecahedronProjection::get_thread_local(); for &k in &all_keys() { let _ = proj_call(proj, k, 1, 0.5); } tx2.send(()).unwrap(); rx.recv().ok(); });
        rx2.recv().unwrap();
        let during: Vec<(usize, String)> = in_fresh_thread(|| (1..N_PUBLIC).step_by(3).map(|i| (i, public_call(i).1)).collect());
        tx.send(()).unwrap();
        keeper.join().unwrap();
        for (i, r) in during { per_call[i].push(("fresh thread beside a live fully warmed thread".into(), r)); }
    }
    // 16 threads at once in this process
    let barrier = Arc::new(Barrier::new(16));
    let mut hs = vec![];
    for th in 0..16usize {
        let b = barrier.clone();
        let mut r2 = Rng::new(seed * 77 + th as u64);
        let mine: Vec<usize> = (0..60).map(|_| r2.below(N_PUBLIC as u64) as usize).collect();
        hs.push(std::thread::spawn(move || { b.wait(); mine.iter().map(|&i| (i, public_call(i).1)).collect::<Vec<_>>() }));
    }
    for h in hs { for (i, r) in h.join().unwrap() { per_call[i].push(("16 concurrent threads".into(), r)); } }
    // (4) cold concurrent starts in fresh processes
    let me = std::env::current_exe().unwrap();
    let nproc = if tier == "thorough" { 300 } else { 40 };
    let mut n_proc = 0u64;
    for pi in 0..nproc {
        let run = || std::process::Command::new(&me).arg("c13child").arg(format!("{}", seed * 100000 + pi)).arg("16").env("RUST_BACKTRACE", "0").output();
        let mut outp = run();
        // a failed spawn on a busy machine is retried; three failures in a row are believed (a crash under concurrency)
        for _ in 0..2 { if outp.as_ref().map(|o| o.status.success()).unwrap_or(false) { break; } std::thread::sleep(std::time::Duration::from_millis(300)); outp = run(); }
        let ok = outp.as_ref().map(|o| o.status.success()).unwrap_or(false);
        if let (true, Ok(o)) = (ok, outp) {
            if let Ok(v) = serde_json::from_slice::<Value>(o.stdout.split(|&b| b == b'\n').next().unwrap_or(&[])) {
                for (ti, th) in v["threads"].as_array().unwrap().iter().enumerate() {
                    for c in th.as_array().unwrap() {
                        let i = c[0].as_u64().unwrap() as usize;
                        per_call[i].push((format!("fresh process {} thread {} (hash)", pi, ti), c[1].as_str().unwrap().to_string()));
                    }
                }
                t.emit(json!({"op": "instances", "where": format!("process {}", pi), "addresses": v["instances"]}));
                n_proc += 1;
                continue;
            }
        }
        t.emit(json!({"op": "instances", "where": format!("process {} FAILED", pi), "addresses": ["crash", "crash"]}));
    }
    t.cut();
    let mut n_pure = 0u64;
    let mut n_ctx = 0u64;
    for i in 0..N_PUBLIC {
        let full = per_call[i][0].1.clone();
        let results: Vec<String> = per_call[i].iter().map(|(c, r)| if c.ends_with("(hash)") { r.clone() } else { fnv(r) }).collect();
        let contexts: Vec<&String> = per_call[i].iter().map(|x| &x.0).collect();
        n_ctx += results.len() as u64;
        t.emit(json!({"op": "purity", "call": names[i], "results": results, "contexts": contexts, "cold_value": full.chars().take(120).collect::<String>()}));
        n_pure += 1;
        t.cut();
    }
    let (n_struct_pairs, n_struct_calls) = structured_pairs(&mut t, tier, &mut rng);
    let n_wrap = wraparound(&mut t, &mut rng);
    let n_track = tracks(&mut t, tier, &mut rng);
    let (n_sat, sat_filled) = saturation(&mut t, tier, &mut rng);
    let n_aferr = after_errors(&mut t, &mut rng);
    n_ctx += 3 * n_struct_calls;
    t.finish();
    json!({"files": t.files, "events": t.events, "key_pairs": n_pairs, "histories": n_hist, "structured_cell_pairs": n_struct_pairs,
           "structured_pair_calls": n_struct_calls, "wraparound_scenarios": n_wrap, "track_events": n_track, "saturation_events": n_sat, "after_error_events": n_aferr, "saturated_thread_memo_slots_filled_of_270": sat_filled, "history_steps": n_steps, "public_calls": n_pure,
           "public_call_contexts": n_ctx, "cold_processes": n_proc,
           "samples": [pair_event(keys[3], keys[123], 0, 1, &cold), json!({"call": names[17], "contexts": per_call[17].len()})]})
}
