// C18: the 12-face frame (face centres, nearest-face selection, relabelling, frame mesh from the memo cache)
// C06: pins -- discrete tables against the specification, continuous anchoring against a frozen golden trace
use crate::geo::{cell_size, classify, ring_oracle, special_points};
use crate::geom::*;
use crate::hilbert;
use crate::util::*;
use a5::coordinate_systems::Face;
use a5::core::cell::CellToBoundaryOptions;
use a5::core::serialization::{deserialize, serialize};
use a5::core::utils::A5Cell;
use a5::projections::dodecahedron::DodecahedronProjection;
use a5::LonLat;
use serde_json::{json, Value};

const RAD2DEG: f64 = 180.0 / std::f64::consts::PI;

fn face_centres() -> Vec<P> {
    all_cells(0).iter().map(|&id| p_of(a5::cell_to_lonlat(id).unwrap())).collect()
}

fn e12(x: f64) -> i64 { (x * 1e12).clamp(-2e9, 2e9).round() as i64 }

pub fn gen_c18(tier: &str, seed: u64, out: &str) -> Value {
    let mut rng = Rng::new(seed ^ 0xC18);
    let mut t = Trace::new(out, "c18", 400);
    // (i) relabelling on all 12 faces
    let n_rel = hilbert::quintmap_events(&mut t, "quintmap");
    // (ii) frame: face centres and all 66 pairwise angles
    let cs = face_centres();
    let inter = 2f64.atan() * RAD2DEG; // 63.4349488... degrees between neighbouring face centres
    for (f, c) in cs.iter().enumerate() {
        let colat = (std::f64::consts::FRAC_PI_2 - c.beta) * RAD2DEG;
        let (class, dev) = [("north", 0.0), ("upper", inter), ("lower", 180.0 - inter), ("south", 180.0)].iter()
            .map(|(n, a)| (*n, (colat - a).abs())).fold(("none", f64::INFINITY), |b, x| if x.1 < b.1 { x } else { b });
        // azimuth theta = longitude + 93 degrees, in units of 36 degrees
        let theta = ((c.lon * RAD2DEG + 93.0) % 360.0 + 360.0) % 360.0;
        let idx = (theta / 36.0).round() as i64 % 10;
        let mut ldev = (theta - 36.0 * (theta / 36.0).round()).abs();
        if class == "north" || class == "south" { ldev = 0.0; }
        t.emit(json!({"op": "facecentre", "face": f, "lat_class": class, "lat_dev_e12": e12(dev), "lon_index": idx, "lon_dev_e12": e12(ldev)}));
    }
    let mut n_pairs = 0u64;
    for f in 0..12 { for g in (f + 1)..12 {
        let a = distance(cs[f], cs[g]) * RAD2DEG;
        let (class, dev) = [("adjacent", inter), ("far", 180.0 - inter), ("antipodal", 180.0)].iter()
            .map(|(n, x)| (*n, (a - x).abs())).fold(("other", f64::INFINITY), |b, x| if x.1 < b.1 { x } else { b });
        t.emit(json!({"op": "faceangle", "f": f, "g": g, "class": class, "dev_e12": e12(dev)}));
        n_pairs += 1;
    } }
    t.cut();
    // (iii) nearest-face selection: uniform points and points within 1e-9 rad of the seams / vertices
    let npts = if tier == "thorough" { 400000 } else { 20000 };
    let specials = special_points();
    let mut batch = vec![];
    let mut n_near = 0u64;
    let mut n_tight = 0u64;
    for i in 0..npts {
        let p = if i % 4 == 0 {
            let s = *rng.pick(&specials);
            let k = [1e-9, 1e-7, 1e-4, 1e-2][(i / 4) % 4] * RAD2DEG * (rng.f64() * 2.0 - 1.0);
            LonLat::new(s.longitude() + k, (s.latitude() + k * (rng.f64() - 0.5)).clamp(-90.0, 90.0))
        } else {
            let z = 2.0 * rng.f64() - 1.0;
            LonLat::new(360.0 * rng.f64() - 180.0, z.asin() * RAD2DEG)
        };
        let res = (i % 2) as i32;
        // every eighth point is written with a longitude alias (+-360, +-720): the face must not depend on it
        let p = if i % 8 == 5 { LonLat::new(p.longitude() + [-720.0, -360.0, 360.0, 720.0][(i / 8) % 4], p.latitude()) } else { p };
        let id = match a5::lonlat_to_cell(p, res) { Ok(id) => id, Err(_) => { batch.push(json!({"chosen": -1, "best": 0, "second": 0, "margin_e12": 0})); continue; } };
        let chosen = deserialize(id).map(|c| c.origin_id as i64).unwrap_or(-1);
        let pp = p_of(p);
        let mut d: Vec<(f64, usize)> = cs.iter().enumerate().map(|(f, c)| (distance(pp, *c), f)).collect();
        d.sort_by(|a, b| a.0.partial_cmp(&b.0).unwrap());
        let margin = d[1].0 - d[0].0;
        if margin < 1e-6 { n_tight += 1; }
        batch.push(json!({"chosen": chosen, "best": d[0].1, "second": d[1].1, "margin_e12": e12(margin)}));
        n_near += 1;
        if batch.len() == 500 { t.emit(json!({"op": "nearest", "pts": batch})); batch = vec![]; t.cut(); }
    }
    if !batch.is_empty() { t.emit(json!({"op": "nearest", "pts": batch})); }
    t.cut();
    // (iv) the 120 base spherical triangles of the memo cache form the frame mesh; reflected ones coincide with neighbours'
    let mut proj = DodecahedronProjection::new().unwrap();
    let sector = std::f64::consts::PI / 5.0;
    for origin in 0..12u8 { for idx in 0..10 { for refl in [false, true] {
        let mut gamma = (idx as f64 + 0.5) * sector;
        if gamma > std::f64::consts::PI { gamma -= 2.0 * std::f64::consts::PI; }
        let seg = gamma / (2.0 * sector);
        let beta = (seg - seg.round()) * 2.0 * sector;
        let rho = if refl { 0.66 } else { 0.3 } / beta.cos();
        proj.inverse(Face::new(rho * gamma.cos(), rho * gamma.sin()), origin).unwrap();
    } } }
    let tris = proj.verif_spherical_triangles();
    let mut verts: Vec<[f64; 3]> = vec![];
    let mut vid = |v: [f64; 3]| -> usize {
        for (i, w) in verts.iter().enumerate() { if ((v[0] - w[0]).powi(2) + (v[1] - w[1]).powi(2) + (v[2] - w[2]).powi(2)).sqrt() < 1e-9 { return i; } }
        verts.push(v); verts.len() - 1
    };
    let mut cells = vec![];
    let mut base: Vec<(usize, Vec<usize>)> = vec![];
    let mut refl_events = vec![];
    for (slot, tri) in &tris {
        let ids: Vec<usize> = tri.iter().map(|v| vid(*v)).collect();
        let det = tri[0][0] * (tri[1][1] * tri[2][2] - tri[1][2] * tri[2][1]) - tri[0][1] * (tri[1][0] * tri[2][2] - tri[1][2] * tri[2][0]) + tri[0][2] * (tri[1][0] * tri[2][1] - tri[1][1] * tri[2][0]);
        // spherical excess (Girard via the triple product formula) in ppm of 4 pi / 120
        let dot = |a: [f64; 3], b: [f64; 3]| a[0] * b[0] + a[1] * b[1] + a[2] * b[2];
        let area = 2.0 * (det.abs()).atan2(1.0 + dot(tri[0], tri[1]) + dot(tri[1], tri[2]) + dot(tri[2], tri[0]));
        let dev = ((area / (4.0 * std::f64::consts::PI / 120.0) - 1.0) * 1e6).round() as i64;
        if *slot < 120 {
            let ccw = if det > 0.0 { ids.clone() } else { vec![ids[0], ids[2], ids[1]] };
            cells.push(json!({"id": quads(0), "verts": ccw, "dev_ppm": dev}));
            base.push((*slot / 10, { let mut s = ids.clone(); s.sort(); s }));
        } else {
            let origin = (*slot - 120) / 10;
            let mut s = ids.clone(); s.sort();
            let m = base.iter().find(|b| b.1 == s).map(|b| b.0 as i64).unwrap_or(-1);
            refl_events.push(json!({"op": "reflected", "origin": origin, "idx": (*slot - 120) % 10, "match_face": m, "dev_ppm": dev}));
        }
    }
    // (v) sector arithmetic: which quintant / memo triangle / reflected region a direction belongs to
    let mut n_sector = 0u64;
    for k in -40..40i64 { // to_polar yields gamma in (-pi, pi] = (-80, 80] half-units
        let g = 2 * k + 1; // odd half-units: never on a sector boundary
        let gamma = g as f64 * (sector / 16.0);
        for beyond in [false, true] {
            let seg = gamma / (2.0 * sector);
            let beta = (seg - seg.round()) * 2.0 * sector;
            let rho = if beyond { 0.64 } else { 0.6 } / beta.cos();
            let quintant = a5::core::tiling::get_quintant_polar(a5::coordinate_systems::Polar::new(rho, a5::coordinate_systems::Radians::new_unchecked(gamma)));
            let mut fresh = DodecahedronProjection::new().unwrap();
            let origin = (k.rem_euclid(12)) as u8;
            fresh.inverse(Face::new(rho * gamma.cos(), rho * gamma.sin()), origin).unwrap();
            let v = fresh.verif_cache_view();
            let sph: Vec<usize> = v.spherical_slots.iter().enumerate().filter(|x| *x.1).map(|x| x.0).collect();
            let (idx, refl) = if sph.len() == 1 { ((sph[0] % 120) % 10, sph[0] >= 120) } else { (99, false) };
            t.emit(json!({"op": "sector", "g": g, "quintant": quintant, "idx": idx, "refl": refl, "beyond": beyond}));
            n_sector += 1;
        }
    }
    t.cut();
    t.emit(json!({"op": "reset"}));
    t.emit(json!({"op": "framecells", "cells": cells}));
    t.emit(json!({"op": "frameend", "nverts": verts.len(), "ntris": tris.iter().filter(|x| x.0 < 120).count()}));
    for e in refl_events { t.emit(e); }
    t.cut();
    t.finish();
    json!({"files": t.files, "events": t.events, "relabel_faces": n_rel, "face_pairs": n_pairs, "nearest_points": n_near, "nearest_points_within_1e-6_of_a_seam": n_tight,
           "frame_triangles": tris.len(), "sector_probes": n_sector, "samples": [json!({"face_centre_0_colat_deg": (std::f64::consts::FRAC_PI_2 - cs[0].beta) * RAD2DEG})]})
}

// ---------------------------------------------------------------- C06

fn fstr(x: f64) -> String { format!("{:?}", x) }

fn golden_cells(rng: &mut Rng) -> Vec<u64> {
    let mut v = vec![];
    for r in 0..=3 { v.extend(all_cells(r)); }
    for r in 4..=29 {
        let h = r - 1;
        for face in 0..12u8 { for seg in 0..5usize { for k in 0..3 {
            let s = match k { 0 => 0, 1 => (1u64 << (2 * h)) - 1, _ => rng.next() & ((1u64 << (2 * h)) - 1) };
            v.push(serialize(&A5Cell { origin_id: face, segment: seg, s, resolution: r }).unwrap());
        } } }
    }
    v
}

/// run ONCE against the reference release (hooks-only tree): writes the frozen table
pub fn make_golden(out: &str) -> Value {
    let mut rng = Rng::new(0x601de2);
    std::fs::create_dir_all(out).unwrap();
    let mut geomf = std::io::BufWriter::new(std::fs::File::create(format!("{}/geom.ndjson", out)).unwrap());
    let mut lookf = std::io::BufWriter::new(std::fs::File::create(format!("{}/lookup.ndjson", out)).unwrap());
    use std::io::Write;
    let (mut ng, mut nl, mut skipped_polar, mut skipped_shallow) = (0, 0, 0, 0);
    for id in golden_cells(&mut rng) {
        let c = match a5::cell_to_lonlat(id) { Ok(c) => c, Err(_) => continue };
        let ring = match a5::cell_to_boundary(id, Some(CellToBoundaryOptions { closed_ring: false, segments: Some(1) })) { Ok(r) => r, Err(_) => continue };
        // the reference computed polar angles with acos: within 2e-5 rad of a pole its own output is noise at the
        // 1e-9 degree level, so those points cannot be pinned to 1e-9 degrees
        let near_pole = |p: &LonLat| (90.0 - p.latitude().abs()) * DEG < 2e-5;
        if near_pole(&c) || ring.iter().any(near_pole) { skipped_polar += 1; } else {
            let pts: Vec<Value> = std::iter::once(&c).chain(ring.iter()).map(|p| json!([fstr(p.longitude()), fstr(p.latitude())])).collect();
            writeln!(geomf, "{}", json!({"id": format!("{:x}", id), "pts": pts})).unwrap();
            ng += 1;
        }
        // lookups: the centre and points 30-60 % of the way from corners to the centre, kept only if the
        // reference answer contains them deeply (by both oracles) -- wrong or borderline answers are not pinned
        let res = res_of(id);
        let mut cands = vec![c];
        for v in &ring { cands.push(towards(*v, c, 0.3 + 0.3 * rng.f64())); }
        for p in cands {
            if let Ok(ans) = a5::lonlat_to_cell(p, res) {
                let deep = match (deserialize(ans), ring_oracle(ans)) { (Ok(cell), Some(o)) => { let (cl, pm, rm) = classify(ans, &cell, p, &o);
                    cl == "deep" && pm > 0.05 * cell_size(res) && rm > 0.05 * cell_size(res) } _ => false };
                if deep { writeln!(lookf, "{}", json!({"p": [fstr(p.longitude()), fstr(p.latitude())], "res": res, "id": format!("{:x}", ans)})).unwrap(); nl += 1; }
                else { skipped_shallow += 1; }
            }
        }
    }
    json!({"geom_entries": ng, "lookup_entries": nl, "skipped_within_2e-5rad_of_pole": skipped_polar, "skipped_not_deep_in_reference": skipped_shallow})
}

/// second golden table: lookups in the neighbourhood of the special points of the frame (face centres, vertices, edge
/// midpoints, points along the 30 seams, poles, round coordinates), where face selection, reflection and quintant
/// choice switch.  Same rule: only answers of the reference that contain the point deeply are pinned.
pub fn make_golden_special(out: &str) -> Value {
    use std::io::Write;
    let mut rng = Rng::new(0x601de3);
    std::fs::create_dir_all(out).unwrap();
    let mut lookf = std::io::BufWriter::new(std::fs::File::create(format!("{}/lookup_special.ndjson", out)).unwrap());
    let mut base: Vec<LonLat> = crate::geo::special_points();
    for id in all_cells(0) {
        if let Some(ring) = crate::geo::ring_ll_pub(id, 2) {
            let n = ring.len();
            for k in 0..n { for t in [0.3, 0.6, 0.9] { base.push(towards(ring[k], ring[(k + 1) % n], t)); } }
        }
    }
    // dedupe (rings of neighbouring faces share their points)
    let mut seen = std::collections::HashSet::new();
    base.retain(|p| seen.insert(((p.longitude() * 1e6).round() as i64, (p.latitude() * 1e6).round() as i64)));
    let (mut nl, mut skipped) = (0u64, 0u64);
    for sp in &base {
        let coslat = (sp.latitude() * DEG).cos().max(1e-3);
        for dir in 0..6 {
            let a = dir as f64 * 1.0472 + rng.f64();
            for d in [1e-7, 3e-5, 1e-4, 1e-3] {
                let dd = d / DEG * (0.7 + 0.6 * rng.f64());
                let lat = sp.latitude() + dd * a.sin();
                if lat.abs() > 89.9 { continue; }
                let p = LonLat::new(sp.longitude() + dd * a.cos() / coslat, lat);
                for res in [0, 1, 2, 4, 8, 14, 21, 29] {
                    if let Ok(ans) = a5::lonlat_to_cell(p, res) {
                        let deep = match (deserialize(ans), ring_oracle(ans)) { (Ok(cell), Some(o)) => { let (cl, pm, rm) = classify(ans, &cell, p, &o);
                            cl == "deep" && pm > 1e-9_f64.max(1e-3 * cell_size(res)) && rm > 1e-9_f64.max(1e-3 * cell_size(res)) } _ => false };
                        if deep { writeln!(lookf, "{}", json!({"p": [fstr(p.longitude()), fstr(p.latitude())], "res": res, "id": format!("{:x}", ans)})).unwrap(); nl += 1; }
                        else { skipped += 1; }
                    }
                }
            }
        }
    }
    json!({"base_points": base.len(), "lookup_entries": nl, "skipped_not_deep_in_reference": skipped})
}

pub fn gen_c06(tier: &str, seed: u64, out: &str, golden: &str) -> Value {
    let mut t = Trace::new(out, "c06", 250);
    // discrete pins: curve walk, relabelling tables
    let s1 = hilbert::gen_anchors("C06", tier, seed, &format!("{}/anchors", out));
    let mut files: Vec<String> = s1["files"].as_array().unwrap().iter().map(|f| f.as_str().unwrap().to_string()).collect();
    let n_rel = hilbert::quintmap_events(&mut t, "quintmappin");
    // continuous pin: frozen golden trace of the reference release
    let (mut ng, mut nl) = (0u64, 0u64);
    let mut maxdev: f64 = 0.0;
    let stride = if tier == "thorough" { 1 } else { 3 };
    if let Ok(txt) = std::fs::read_to_string(format!("{}/geom.ndjson", golden)) {
        for (i, line) in txt.lines().enumerate() {
            if i % stride != 0 { continue; }
            let v: Value = match serde_json::from_str(line) { Ok(v) => v, Err(_) => continue };
            let id = u64::from_str_radix(v["id"].as_str().unwrap(), 16).unwrap();
            let refpts: Vec<LonLat> = v["pts"].as_array().unwrap().iter().map(|p| LonLat::new(p[0].as_str().unwrap().parse().unwrap(), p[1].as_str().unwrap().parse().unwrap())).collect();
            let now_c = catch(|| a5::cell_to_lonlat(id)).ok().and_then(|x| x.ok());
            let now_r = catch(|| a5::cell_to_boundary(id, Some(CellToBoundaryOptions { closed_ring: false, segments: Some(1) }))).ok().and_then(|x| x.ok());
            let (ok, dev) = match (now_c, now_r) {
                (Some(c), Some(r)) if r.len() + 1 == refpts.len() => {
                    let now: Vec<LonLat> = std::iter::once(c).chain(r.into_iter()).collect();
                    // "the same physical points to within 1e-9 degrees": great-circle separation
                    let d = now.iter().zip(refpts.iter()).map(|(a, b)| distance(p_of(*a), p_of(*b)) * RAD2DEG).fold(0.0, f64::max);
                    (true, d)
                }
                _ => (false, 1.0),
            };
            maxdev = maxdev.max(dev);
            t.emit(json!({"op": "goldengeom", "id": quads(id), "ok": ok, "dev_e12": e12(dev), "npts": refpts.len()}));
            ng += 1;
            t.cut();
        }
    }
    for (file, stride) in [("lookup.ndjson", stride), ("lookup_special.ndjson", if tier == "thorough" { 1 } else { 4 })] {
      if let Ok(txt) = std::fs::read_to_string(format!("{}/{}", golden, file)) {
        for (i, line) in txt.lines().enumerate() {
            if i % stride != 0 { continue; }
            let v: Value = match serde_json::from_str(line) { Ok(v) => v, Err(_) => continue };
            let p = LonLat::new(v["p"][0].as_str().unwrap().parse().unwrap(), v["p"][1].as_str().unwrap().parse().unwrap());
            let res = v["res"].as_i64().unwrap() as i32;
            let idref = u64::from_str_radix(v["id"].as_str().unwrap(), 16).unwrap();
            let now = catch(|| a5::lonlat_to_cell(p, res)).ok().and_then(|x| x.ok());
            t.emit(json!({"op": "goldenlookup", "p": v["p"], "res": res, "ok": now.is_some(), "ref": quads(idref), "now": quads(now.unwrap_or(0))}));
            nl += 1;
            t.cut();
        }
      }
    }
    t.finish();
    files.extend(t.files.iter().cloned());
    json!({"files": files, "events": t.events + s1["events"].as_u64().unwrap_or(0), "pinned_positions": s1["positions_exhaustive"].as_u64().unwrap_or(0) + s1["positions_deep"].as_u64().unwrap_or(0),
           "relabel_faces": n_rel, "golden_cells": ng, "golden_lookups": nl, "max_geom_dev_deg": maxdev,
           "samples": [json!({"golden": "id -> centre+corners, (point,res) -> id from the reference release v0.6.2"})]})
}
