// Re-execution of recorded events: `a5h replay <in.ndjson> <out.ndjson>` reads a replay slice written by
// bin/check, runs every call again on the CURRENT library with the recorded arguments and writes fresh
// events, which bin/check then validates with TLC.  Events that cannot be re-executed from their own
// fields (streams that depend on harness state) are passed through unchanged and marked.
use crate::util::*;
use crate::{compact, geo, ids};
use a5::LonLat;
use serde_json::{json, Value};

fn ll(v: &Value) -> LonLat {
    LonLat::new(v[0].as_str().unwrap().parse().unwrap(), v[1].as_str().unwrap().parse().unwrap())
}
fn idlist(v: &Value) -> Vec<u64> { v.as_array().map(|a| a.iter().map(from_quads).collect()).unwrap_or_default() }

pub fn reexec(e: &Value) -> (Value, bool) {
    let op = e["op"].as_str().unwrap_or("");
    let i = |k: &str| e[k].as_i64().unwrap_or(0) as i32;
    let out = match op {
        "codec" => ids::codec_event(&cell_from_json(&e["cell"])),
        "decode" => ids::decode_event(from_quads(&e["id"])),
        "hexfmt" => ids::hexfmt_event(from_quads(&e["id"])),
        "canonout" => ids::canonout_event(e["fn"].as_str().unwrap_or(""), from_quads(&e["id"]), i("r"), e["dflt"].as_bool().unwrap_or(false)),
        "hexparse" => {
            let s: String = e["str"].as_array().unwrap().iter().map(|c| { let c = c.as_u64().unwrap() as u32; if c == 255 { 'é' } else { char::from_u32(c).unwrap() } }).collect();
            ids::hexparse_event(&s)
        }
        "children" => ids::children_event(from_quads(&e["id"]), if e["dflt"].as_bool().unwrap_or(false) { None } else { Some(i("target")) }),
        "parentcomp" => ids::parentcomp_event(from_quads(&e["c"]), i("a"), i("b")),
        "childcomp" => ids::childcomp_event(from_quads(&e["c"]), i("m"), i("r2")),
        "uncompact" => ids::uncompact_event(&idlist(&e["cells"]), i("target")),
        "ancpair" => ids::ancpair_event(from_quads(&e["a"]), from_quads(&e["b"]), i("r"), if e["has_desc"].as_bool().unwrap_or(false) { 1 } else { 0 }),
        "compact10" => compact::compact10_event(&idlist(&e["cells"])),
        "compactpair" => compact::compactpair_event(&idlist(&e["a"]), &idlist(&e["b"])),
        "compact8" => {
            // same variants (orders and multiplicities) as recorded
            let variants: Vec<Vec<u64>> = e["variants"].as_array().unwrap().iter().map(idlist).collect();
            let mut outs = vec![]; let mut oks = vec![];
            for v in &variants { let (ok, o) = compact::compact_call(v); oks.push(ok); outs.push(quads_list(&o)); }
            let mut ev = e.clone();
            ev["outs"] = json!(outs); ev["oks"] = json!(oks); ev["has_expand"] = json!(false);
            ev
        }
        "lookup" => geo::lookup_event(ll(&e["p"]), i("res"), e["kind"].as_str().unwrap_or("replay")),
        "centre" => geo::centre_event(from_quads(&e["id"])),
        "lookupsteps" => geo::lookupsteps_event(ll(&e["p"]), i("res")).unwrap_or_else(|| e.clone()),
        "area" => geo::area_event(from_quads(&e["id"])),
        "localmesh" => geo::localmesh_event(from_quads(&e["id"])),
        "boundary" => geo::boundary_event(from_quads(&e["id"]), if e["dflt"].as_bool().unwrap_or(false) { None } else { Some(i("n")) }, e["closed"].as_bool().unwrap_or(true)),
        _ => return (e.clone(), false),
    };
    (out, true)
}

pub fn run(input: &str, output: &str) {
    use std::io::Write;
    let txt = std::fs::read_to_string(input).expect("replay input");
    let mut w = std::io::BufWriter::new(std::fs::File::create(output).expect("replay output"));
    let (mut n, mut re) = (0, 0);
    for line in txt.lines() {
        let e: Value = match serde_json::from_str(line) { Ok(v) => v, Err(_) => continue };
        let (o, did) = reexec(&e);
        n += 1;
        if did { re += 1; }
        writeln!(w, "{}", o).unwrap();
    }
    eprintln!("replay: {} events, {} re-executed on the current tree, {} passed through as recorded", n, re, n - re);
}
