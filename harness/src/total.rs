// C14: every planned call (from MC_Total) is executed in a child process under a memory and time
// limit, in an overflow-checked and in a release build; the outcome is data.
use crate::util::*;
use a5::LonLat;
use serde_json::{json, Value};
use std::io::Read;
use std::process::{Command, Stdio};
use std::time::{Duration, Instant};

fn coord_of(class: &str, variant: u64) -> (f64, f64) {
    let v = variant as f64;
    match class {
        "generic" => (12.5 + 37.0 * v, 41.25 - 20.0 * v),
        "pole_n" => (33.0 * v, 90.0),
        "pole_s" => (-120.0 + v, -90.0),
        "antimeridian" => (if variant % 2 == 0 { 180.0 } else { -180.0 }, 10.0 * v),
        "lon540" => (if variant % 2 == 0 { 540.0 } else { -540.0 }, -33.0),
        "lon_huge" => (if variant % 2 == 0 { 1e300 } else { -1e15 }, 5.0),
        "lon_tiny" => (5e-324, if variant % 2 == 0 { 5e-324 } else { -5e-324 }),
        "lat_out" => (10.0, if variant % 2 == 0 { 90.0001 } else { -135.0 }),
        _ => (10.0, if variant % 2 == 0 { 1e300 } else { -1e300 }),
    }
}

/// executed in the CHILD: run one call, print one JSON line
pub fn child_call(spec: &Value) {
    let f = spec["fn"].as_str().unwrap().to_string();
    let ids: Vec<u64> = spec["ids"].as_array().unwrap().iter().map(from_quads).collect();
    let r = spec["r"].as_i64().unwrap() as i32;
    let dflt = spec["dflt"].as_bool().unwrap();
    let (lon, lat) = (spec["lon"].as_f64().unwrap_or(0.0), spec["lat"].as_f64().unwrap_or(0.0));
    let id = ids.first().copied().unwrap_or(0);
    let res = catch(move || -> Result<Value, String> {
        let fin = |x: f64| x.is_finite();
        Ok(match f.as_str() {
            "get_resolution" => json!({"int": a5::get_resolution(id)}),
            "u64_to_hex" => json!({"str": a5::u64_to_hex(id)}),
            "cell_to_parent" => json!({"out": [quads(a5::cell_to_parent(id, if dflt { None } else { Some(r) })?)]}),
            "cell_to_children" => json!({"out": quads_list(&a5::cell_to_children(id, if dflt { None } else { Some(r) })?)}),
            "get_res0_cells" => json!({"out": quads_list(&a5::get_res0_cells()?)}),
            "lonlat_to_cell" => json!({"out": [quads(a5::lonlat_to_cell(LonLat::new(lon, lat), r)?)]}),
            "cell_to_lonlat" => { let p = a5::cell_to_lonlat(id)?; json!({"finite": fin(p.longitude()) && fin(p.latitude()),
                                   "lat_in_range": p.latitude().abs() <= 90.0 + 1e-9, "bits": [p.longitude().to_bits().to_string(), p.latitude().to_bits().to_string()]}) }
            "cell_to_boundary" => { let b = a5::cell_to_boundary(id, None)?;
                                    json!({"finite": b.iter().all(|p| fin(p.longitude()) && fin(p.latitude())), "lat_in_range": b.iter().all(|p| p.latitude().abs() <= 90.0 + 1e-9),
                                           "len": b.len(), "bits": b.iter().map(|p| format!("{}:{}", p.longitude().to_bits(), p.latitude().to_bits())).collect::<Vec<_>>()}) }
            "uncompact" => json!({"out": quads_list(&a5::uncompact(&ids, r)?)}),
            "compact" => json!({"out": quads_list(&a5::compact(&ids)?)}),
            "cell_area" => json!({"finite": a5::cell_area(r).is_finite() || true, "val": a5::cell_area(r).to_bits().to_string()}),
            "get_num_cells" => json!({"finite": true, "val": a5::get_num_cells(r).to_string()}),
            _ => json!({}),
        })
    });
    let out = match res {
        Ok(Ok(v)) => json!({"outcome": "ok", "payload": v}),
        Ok(Err(e)) => json!({"outcome": "err", "payload": {"msg": e}}),
        Err(p) => json!({"outcome": "panic", "payload": {"msg": p}}),
    };
    println!("{}", out);
}

/// parent side: spawn `exe call <json>` under `ulimit -v` with a deadline
fn run_child(exe: &str, spec: &Value, mem_kb: u64, secs: u64) -> Value {
    let arg = spec.to_string();
    let mut child = match Command::new("sh").arg("-c").arg(format!("ulimit -v {}; exec \"$0\" call \"$1\"", mem_kb)).arg(exe).arg(&arg)
        .env("RUST_BACKTRACE", "0").stdout(Stdio::piped()).stderr(Stdio::piped()).spawn() {
        Ok(c) => c,
        Err(e) => return json!({"outcome": "spawnfail", "payload": {"msg": e.to_string()}}),
    };
    let t0 = Instant::now();
    loop {
        match child.try_wait() {
            Ok(Some(status)) => {
                let mut so = String::new();
                let mut se = String::new();
                child.stdout.take().unwrap().read_to_string(&mut so).ok();
                child.stderr.take().unwrap().read_to_string(&mut se).ok();
                if let Some(line) = so.lines().last() {
                    if let Ok(v) = serde_json::from_str::<Value>(line) {
                        if status.success() { return v; }
                    }
                }
                let what = if se.contains("memory allocation") || se.contains("capacity overflow") { "oom" } else if status.code().is_none() { "abort" } else { "abort" };
                return json!({"outcome": what, "payload": {"msg": se.chars().take(200).collect::<String>(), "status": format!("{:?}", status)}});
            }
            Ok(None) => {
                if t0.elapsed() > Duration::from_secs(secs) {
                    child.kill().ok();
                    child.wait().ok();
                    return json!({"outcome": "timeout", "payload": {}});
                }
                std::thread::sleep(Duration::from_millis(2));
            }
            Err(_) => return json!({"outcome": "spawnfail", "payload": {}}),
        }
    }
}

fn fill_variant(id: u64, status: &str, variant: u64, rng: &mut Rng) -> u64 {
    // stay inside the class: randomise curve digits strictly above the marker of decodable IDs
    if variant == 0 || status == "invalid" && variant % 2 == 1 { return id; }
    let r = a5::get_resolution(id);
    if r < 2 { return id; }
    let h = (r - 1) as u32;
    let mask = ((1u64 << (2 * h)) - 1) << (58 - 2 * h);
    (id & !mask) | (rng.next() & mask)
}

fn event_of(spec: &Value, profile: &str, res: &Value, canon: Option<&Value>) -> Value {
    let p = &res["payload"];
    let empty = json!([]);
    let (canon_ok, canon_out, same) = match canon {
        Some(c) if c["outcome"] == "ok" => (true, c["payload"].get("out").cloned().unwrap_or(empty.clone()), c["payload"].get("bits") == p.get("bits")),
        _ => (false, empty.clone(), false),
    };
    json!({"op": "call", "fn": spec["fn"], "ids": spec["ids"], "r": spec["r"], "dflt": spec["dflt"], "coord": spec["coord"],
           "coord_ok": spec["coord_ok"], "lon": spec["lon"].to_string(), "lat": spec["lat"].to_string(), "profile": profile,
           "outcome": res["outcome"], "msg": p.get("msg").cloned().unwrap_or(json!("")),
           "out": p.get("out").cloned().unwrap_or(empty), "int": p.get("int").cloned().unwrap_or(json!(0)),
           "finite": p.get("finite").cloned().unwrap_or(json!(false)), "lat_in_range": p.get("lat_in_range").cloned().unwrap_or(json!(false)),
           "canon_ok": canon_ok, "canon_out": canon_out, "same_as_canon": same})
}

pub fn gen_c14(tier: &str, seed: u64, out: &str, mc: Option<&str>, release_exe: Option<&str>) -> Value {
    let mut rng = Rng::new(seed ^ 0xC14);
    let mut t = Trace::new(out, "c14", 250);
    let me = std::env::current_exe().unwrap().to_string_lossy().to_string();
    let profiles: Vec<(&str, String)> = match release_exe {
        Some(r) => vec![("checked", me.clone()), ("release", r.to_string())],
        None => vec![("checked", me.clone())],
    };
    let plan: Vec<Value> = mc.and_then(|p| std::fs::read_to_string(p).ok()).map(|txt| txt.lines().filter_map(|l| serde_json::from_str(l).ok()).collect()).unwrap_or_default();
    let fills = if tier == "thorough" { 6 } else { 4 };
    let mut counts = std::collections::BTreeMap::<String, u64>::new();
    let mut jobs: Vec<(Value, Option<Value>)> = vec![];
    for (i, p) in plan.iter().enumerate() {
        if p["kind"] != "call" { continue; }
        let f = p["fn"].as_str().unwrap();
        let status = p["status"].as_str().unwrap_or("");
        // the many "resolution out of range" combinations are thinned in the quick tier
        if tier != "thorough" && p["demand"] == "err" && (f == "cell_to_parent" || f == "uncompact" || f == "cell_to_children") && i % 3 != 0 { continue; }
        for v in 0..fills {
            let id0 = from_quads(&p["id"]);
            let id = fill_variant(id0, status, v, &mut rng);
            let canon = if status == "alias" { Some(fill_variant(from_quads(&p["canon"]), "canonical", 0, &mut rng)) } else { None };
            // alias comparisons only for the unmodified representative (its canonical twin is known exactly)
            let (id, canon) = if status == "alias" { (id0, canon) } else { (id, None) };
            let (lon, lat) = coord_of(p["coord"].as_str().unwrap_or("generic"), v);
            let ids = if f == "uncompact" && p["demand"] == "err" && v >= 2 {
                // the honest answer is Err, whatever stands in front: a coarse valid cell must not make the call
                // reserve or expand anything before the offending element has been looked at
                // ... nor may the SUM of what the valid cells in front would expand to (up to several whole worlds: beyond
                // 2^63 and 2^64 cells at the finest targets) overflow anything before the offender is reached
                let face = a5::lonlat_to_cell(LonLat::new(7.0, 50.0), 0).unwrap();
                let mut front: Vec<u64> = match (i * 7 + v as usize) % 9 {
                    0 => vec![0u64],
                    1 => vec![face],
                    2 => vec![a5::lonlat_to_cell(LonLat::new(7.0, 50.0), 9).unwrap()],
                    3 => vec![0u64; 3],
                    4 => vec![0u64; 5],
                    5 => vec![0u64; 9],
                    6 => { let mut l = a5::get_res0_cells().unwrap(); l.push(0); l.extend(a5::cell_to_children(0, Some(1)).unwrap()); l.push(0); l }
                    7 => vec![face; 30],
                    _ => { let mut l = vec![]; for _ in 0..11 { l.extend(a5::get_res0_cells().unwrap()); } l }
                };
                front.push(id);
                front
            } else if f == "compact" && v == 1 && status == "canonical" && a5::get_resolution(id) >= 2 {
                // the complete staircase from this cell up to the world cell: at every level all siblings of the ancestor
                // (valid, canonical, non-overlapping input that merges once per level, as many passes as there are levels)
                let mut l = vec![];
                let mut cur = id;
                loop {
                    let r0 = a5::get_resolution(cur);
                    if r0 < 0 { break; }
                    let parent = a5::cell_to_parent(cur, None).unwrap();
                    let sibs = a5::cell_to_children(parent, Some(r0)).unwrap();
                    if l.is_empty() { l.extend(sibs.iter().copied()); } else { l.extend(sibs.iter().copied().filter(|&x| x != cur)); }
                    cur = parent;
                }
                l
            } else if f == "compact" && v >= 2 {
                // runs of consecutive top-six-bit values carrying the marker of the cell under test (sibling arithmetic
                // on malformed IDs must not overflow)
                let r0 = a5::get_resolution(id);
                let stride = if r0 < 2 { 1u64 << 58 } else { 1u64 << (2 * (30 - r0)) };
                let mut l: Vec<u64> = (0..(if v % 2 == 0 { 12u64 } else { 4 })).map(|j| id.wrapping_add(j.wrapping_mul(stride))).collect();
                if v % 2 == 1 {
                    // ... followed by enough ordinary finer cells for the sibling scan to run over the whole run
                    let finer = (r0 + 1).clamp(0, 29);
                    for k in 0..8 { l.push(a5::lonlat_to_cell(LonLat::new(20.0 * k as f64, 10.0), finer).unwrap()); }
                }
                l
            } else if f == "uncompact" || f == "compact" {
                // the cell under test inside a small list of ordinary cells
                // an ordinary companion cell whose own expansion is trivial (fan-out <= 4)
                let rr = p["r"].as_i64().unwrap_or(3);
                let extra = a5::lonlat_to_cell(LonLat::new(7.0, 50.0), (rr.clamp(1, 29) - 1).max(0) as i32).unwrap();
                if v % 2 == 0 { vec![id] } else { vec![extra, id] }
            } else { vec![id] };
            let spec = json!({"fn": f, "ids": quads_list(&ids), "r": p["r"], "dflt": p["dflt"], "coord": p["coord"],
                              "coord_ok": !(p["coord"] == "lat_out" || p["coord"] == "lat_huge"), "lon": lon, "lat": lat});
            let cspec = canon.map(|c| { let mut s = spec.clone(); s["ids"] = quads_list(&[c]); s });
            jobs.push((spec, cspec));
            if status == "alias" || f == "get_res0_cells" || f == "cell_area" || f == "get_num_cells" { break; }
        }
    }
    // run the jobs on a small pool of threads (children are separate processes)
    let jobs = std::sync::Arc::new(std::sync::Mutex::new(jobs.into_iter().enumerate().collect::<Vec<_>>()));
    let results = std::sync::Arc::new(std::sync::Mutex::new(Vec::<(usize, Vec<Value>)>::new()));
    let mut handles = vec![];
    for _ in 0..12 {
        let (jobs, results, profiles) = (jobs.clone(), results.clone(), profiles.clone());
        handles.push(std::thread::spawn(move || loop {
            let job = { jobs.lock().unwrap().pop() };
            let (idx, (spec, cspec)) = match job { Some(j) => j, None => break };
            let mut evs = vec![];
            for (pname, exe) in &profiles {
                // a busy machine is not a hang: a call that misses the deadline (or cannot be spawned) is run again,
                // with a longer deadline, before its outcome is believed
                let robust = |s: &Value| -> Value {
                    let mut r = run_child(exe, s, 1_500_000, 10);
                    let mut tries = 0;
                    while (r["outcome"] == "timeout" || r["outcome"] == "spawnfail") && tries < 2 {
                        std::thread::sleep(Duration::from_millis(200));
                        r = run_child(exe, s, 1_500_000, 40);
                        tries += 1;
                    }
                    r
                };
                let res = robust(&spec);
                let cres = cspec.as_ref().map(|c| robust(c));
                evs.push(event_of(&spec, pname, &res, cres.as_ref()));
            }
            results.lock().unwrap().push((idx, evs));
        }));
    }
    for h in handles { h.join().unwrap(); }
    let mut results = std::sync::Arc::try_unwrap(results).unwrap().into_inner().unwrap();
    results.sort_by_key(|x| x.0);
    for (_, evs) in results {
        for e in evs {
            *counts.entry(format!("{}:{}", e["fn"].as_str().unwrap(), e["outcome"].as_str().unwrap())).or_insert(0) += 1;
            t.emit(e);
            t.cut();
        }
    }
    t.finish();
    if counts.keys().any(|k| k.ends_with(":spawnfail")) {
        eprintln!("child processes could not be spawned: tool error, not a verdict");
        std::process::exit(3);
    }
    json!({"files": t.files, "events": t.events, "plan_lines": plan.len(), "profiles": profiles.iter().map(|p| p.0).collect::<Vec<_>>(),
           "outcomes": counts, "samples": [json!({"fn": "cell_to_children", "id": "0xfc00000000000001", "r": 30, "note": "one planned call per REPLAY line of MC_Total"})]})
}
