// Trace generators for compaction: C08 (cover preserved, no duplicates, order independent) and
// C10 (maximal, idempotent, canonical).
use crate::ids::{collect_hex_lists, honest_fanout};
use crate::util::*;
use a5::core::serialization::serialize;
use a5::core::utils::A5Cell;
use serde_json::{json, Value};

pub fn compact_call(cells: &[u64]) -> (bool, Vec<u64>) {
    about_to("compact", json!({"cells": quads_list(&cells[..cells.len().min(64)]), "ncells": cells.len()}));
    let r = catch(|| a5::compact(cells));
    done();
    match r {
        Ok(Ok(v)) => (true, v),
        _ => (false, vec![]),
    }
}

fn finest(cells: &[u64]) -> i32 {
    cells.iter().map(|&c| res_of(c)).max().unwrap_or(-1)
}

fn compact8_event(set: &[u64], rng: &mut Rng, nvariants: usize, expand_cap: u64) -> Value {
    let mut sorted = set.to_vec();
    sorted.sort_unstable();
    sorted.dedup();
    let mut variants: Vec<Vec<u64>> = vec![sorted.clone()];
    let mut rev = sorted.clone();
    rev.reverse();
    variants.push(rev);
    while variants.len() < nvariants {
        let mut v = sorted.clone();
        // random multiplicity
        let extra = rng.below(1 + (v.len() as u64) / 2);
        for _ in 0..extra {
            let x = *rng.pick(&sorted);
            v.push(x);
        }
        rng.shuffle(&mut v);
        variants.push(v);
    }
    let mut outs = vec![];
    let mut oks = vec![];
    for v in &variants {
        let (ok, o) = compact_call(v);
        oks.push(ok);
        outs.push(o);
    }
    let r = finest(&sorted);
    let total: u64 = sorted.iter().map(|&c| honest_fanout(res_of(c), r)).fold(0u64, |a, b| a.saturating_add(b));
    let has_expand = total <= expand_cap && oks[0];
    let (exp_ok, exp_in, exp_out) = if has_expand {
        let a = catch(|| a5::uncompact(&sorted, r));
        let b = catch(|| a5::uncompact(&outs[0], r));
        match (a, b) {
            (Ok(Ok(a)), Ok(Ok(b))) => {
                let mut a = a; a.sort_unstable(); a.dedup();
                let mut b = b; b.sort_unstable(); b.dedup();
                (true, a, b)
            }
            _ => (false, vec![], vec![]),
        }
    } else {
        (true, vec![], vec![])
    };
    json!({"op": "compact8", "variants": variants.iter().map(|v| quads_list(v)).collect::<Vec<_>>(), "oks": oks,
           "outs": outs.iter().map(|v| quads_list(v)).collect::<Vec<_>>(),
           "has_expand": has_expand, "exp_ok": exp_ok, "exp_in": quads_list(&exp_in), "exp_out": quads_list(&exp_out)})
}

pub fn compact10_event(cells: &[u64]) -> Value {
    let (ok, out) = compact_call(cells);
    let (ok2, again) = compact_call(&out);
    json!({"op": "compact10", "cells": quads_list(cells), "ok": ok, "out": quads_list(&out), "ok2": ok2, "again": quads_list(&again)})
}

pub fn compactpair_event(a: &[u64], b: &[u64]) -> Value {
    let (ok_a, out_a) = compact_call(a);
    let (ok_b, out_b) = compact_call(b);
    json!({"op": "compactpair", "a": quads_list(a), "b": quads_list(b), "ok": ok_a && ok_b,
           "out_a": quads_list(&out_a), "out_b": quads_list(&out_b)})
}

fn children(c: u64) -> Vec<u64> {
    a5::cell_to_children(c, None).unwrap_or_default()
}

/// random antichain by recursive subdivision and deletion below `root`
fn antichain(root: u64, rng: &mut Rng, budget: &mut i64, depth: i32, p_split: f64, p_del: f64, out: &mut Vec<u64>) {
    let r = res_of(root);
    if *budget > 0 && depth > 0 && r < 29 && rng.chance(p_split) {
        let ks = children(root);
        *budget -= ks.len() as i64;
        for k in ks {
            antichain(k, rng, budget, depth - 1, p_split * 0.8, p_del, out);
        }
    } else if !rng.chance(p_del) {
        out.push(root);
    }
}

fn random_root(rng: &mut Rng) -> u64 {
    let r = match rng.below(10) { 0 => -1, 1 | 2 => 0, 3 | 4 => 1, 5 => 2, 6 => 3, _ => rng.range(4, 26) as i32 };
    if r == -1 { return 0; }
    let h = if r >= 2 { r - 1 } else { 0 };
    let s = if h == 0 { 0 } else { rng.next() & ((1u64 << (2 * h)) - 1) };
    serialize(&A5Cell { origin_id: rng.below(12) as u8, segment: if r == 0 { 0 } else { rng.below(5) as usize }, s, resolution: r }).unwrap()
}

fn random_antichain(rng: &mut Rng, max: i64) -> Vec<u64> {
    let root = random_root(rng);
    let mut out = vec![];
    let mut budget = max;
    let p_del = match rng.below(4) { 0 => 0.0, 1 => 0.05, 2 => 0.15, _ => 0.4 };
    let d1 = 2 + rng.below(4) as i32;
    antichain(root, rng, &mut budget, d1, 0.9, p_del, &mut out);
    // sometimes a second root elsewhere (several faces / base cells mixed with quintants)
    if rng.chance(0.4) {
        let root2 = random_root(rng);
        let r1 = res_of(root);
        let r2 = res_of(root2);
        let unrelated = if r1 <= r2 { a5::cell_to_parent(root2, Some(r1)).ok() != Some(root) } else { a5::cell_to_parent(root, Some(r2)).ok() != Some(root2) };
        if unrelated && root != 0 && root2 != 0 {
            let mut b2 = max / 2;
            let d2 = 1 + rng.below(3) as i32;
            antichain(root2, rng, &mut b2, d2, 0.9, p_del, &mut out);
        }
    }
    out
}

/// low-resolution mixes: per face absent / base / quintants / quintants with splits; the area of the defect in v0.6.2
fn lowres_mix(rng: &mut Rng) -> Vec<u64> {
    let mut out = vec![];
    let bases = children(0);
    for &b in &bases {
        match rng.below(6) {
            0 => {}
            1 | 2 => out.push(b),
            3 => out.extend(children(b)),
            4 => { let mut q = children(b); let k = rng.below(5) as usize; q.remove(k); out.extend(q); }
            _ => { for q in children(b) { if rng.chance(0.3) { out.extend(children(q)); } else { out.push(q); } } }
        }
    }
    out
}

/// sparse deep cascade: walk down `levels` levels from a root, keeping at each level all siblings of the
/// chosen child; the last level keeps the chosen child's place filled by ALL its children, so that everything
/// merges back level by level (one group per pass); `hole` removes one leaf so that it stops part-way
fn deep_chain(rng: &mut Rng, levels: i32, hole: bool) -> Vec<u64> {
    let start = if levels >= 30 { -1 } else if levels == 29 { rng.range(-1, 0) as i32 } else { match rng.below(4) { 0 => -1, 1 => 0, _ => rng.range(1, (29 - levels).max(1) as i64) as i32 } };
    let mut cur = if start == -1 { 0 } else {
        let h = if start >= 2 { start - 1 } else { 0 };
        let s = if h == 0 { 0 } else { rng.next() & ((1u64 << (2 * h)) - 1) };
        serialize(&A5Cell { origin_id: rng.below(12) as u8, segment: if start == 0 { 0 } else { rng.below(5) as usize }, s, resolution: start }).unwrap()
    };
    let mut out = vec![];
    let depth = levels.min(29 - start);
    for d in 0..depth {
        let ks = children(cur);
        let pick = rng.below(ks.len() as u64) as usize;
        for (i, &k) in ks.iter().enumerate() { if i != pick || d == depth - 1 { out.push(k); } }
        cur = ks[pick];
    }
    if hole && out.len() > 1 { let i = rng.below(out.len() as u64) as usize; out.remove(i); }
    out
}

/// a run of consecutive curve positions at one resolution (the shape on which "sorted neighbours" fast paths work),
/// optionally perturbed in place: 0 none, 1 adjacent swap, 2 one entry replaced by a cell of another resolution,
/// 3 duplicate, 4 deletion, 5 two random positions swapped
pub fn run_list(rng: &mut Rng, perturb: u64) -> Vec<u64> {
    let r = rng.range(2, 29) as i32;
    let h = r - 1;
    let len = rng.range(8, 40) as u64;
    let max = 1u64 << (2 * h);
    let len = len.min(max);
    let s0 = rng.below(max - len + 1);
    let (face, seg) = (rng.below(12) as u8, rng.below(5) as usize);
    let mut v: Vec<u64> = (0..len).map(|k| serialize(&A5Cell { origin_id: face, segment: seg, s: s0 + k, resolution: r }).unwrap()).collect();
    let n = v.len();
    match perturb {
        1 if n >= 2 => { let i = rng.below(n as u64 - 1) as usize; v.swap(i, i + 1); }
        2 => { let i = rng.below(n as u64) as usize; let rr = rng.range(0, r as i64) as i32;
               let hh = if rr >= 2 { rr - 1 } else { 0 };
               v[i] = serialize(&A5Cell { origin_id: (face + 1 + rng.below(11) as u8) % 12, segment: if rr == 0 { 0 } else { rng.below(5) as usize },
                                          s: if hh == 0 { 0 } else { rng.next() & ((1u64 << (2 * hh)) - 1) }, resolution: rr }).unwrap(); }
        3 => { let i = rng.below(n as u64) as usize; let x = v[i]; v.insert(rng.below(n as u64 + 1) as usize, x); }
        4 if n >= 2 => { let i = rng.below(n as u64) as usize; v.remove(i); }
        5 if n >= 2 => { let (i, j) = (rng.below(n as u64) as usize, rng.below(n as u64) as usize); v.swap(i, j); }
        _ => {}
    }
    v
}

/// a sibling group some of whose members are replaced by their look-alikes elsewhere: the cell with the same curve
/// digits in another quintant or on another face (top six bits changed by a single bit, by 32, or at random).  Nothing
/// may merge -- sibling tests done with ID arithmetic (strides, sums, xors) see "almost" a group
pub fn transplanted(rng: &mut Rng) -> Vec<u64> {
    use a5::core::serialization::{deserialize, serialize};
    let r = 2 + rng.below(28) as i32;
    let parent = crate::ids::random_cell(rng, r - 1);
    let kids = children(parent);
    let mut out = vec![];
    let pick = 1 + rng.below(14);            // non-empty proper subset of the four members moves
    let top = kids[0] >> 58;                  // 5 * face + quintant number
    let cand: Vec<u64> = match rng.below(3) { 0 => (0..6).map(|b| top ^ (1 << b)).collect(), 1 => vec![(top + 32) % 64, (top + 59) % 60, (top + 1) % 60, (top + 5) % 60], _ => vec![rng.below(60)] };
    let cand: Vec<u64> = cand.into_iter().filter(|&t| t < 60 && t != top).collect();
    if cand.is_empty() { return kids; }
    let t2 = *rng.pick(&cand);
    for (j, &k) in kids.iter().enumerate() {
        if pick >> j & 1 == 1 { out.push((k & ((1u64 << 58) - 1)) | (t2 << 58)); } else { out.push(k); }
    }
    debug_assert!(out.iter().all(|&x| deserialize(x).and_then(|c| serialize(&c)).map(|y| y == x).unwrap_or(false)));
    // sometimes some ordinary company
    if rng.chance(0.4) { out.extend(random_antichain(rng, 12)); out.sort_unstable(); out.dedup(); }
    rng.shuffle(&mut out);
    out
}

/// four (or five, twelve) cells of one resolution in arithmetic progression with the stride of ANOTHER level: first
/// children of consecutive parents / quintants / faces.  They are never siblings, so nothing may merge.
pub fn wrong_stride(rng: &mut Rng) -> Vec<u64> {
    use a5::core::serialization::{deserialize, serialize};
    let r = 2 + rng.below(28) as i32;
    let parent = crate::ids::random_cell(rng, r - 1);
    let kids = children(parent);
    let c0 = kids[if rng.chance(0.7) { 0 } else { rng.below(4) as usize }];
    // strides of the coarser Hilbert levels and of the top six bits
    let mut strides: Vec<u64> = (2..r).map(|q| 1u64 << (2 * (30 - q))).collect();
    strides.push(1u64 << 58);
    let st = if rng.chance(0.4) { *strides.last().unwrap() } else if rng.chance(0.5) && strides.len() >= 2 { strides[strides.len() - 2] } else { *rng.pick(&strides) };
    let n = [4u64, 4, 5, 12][rng.below(4) as usize];
    let mut out = vec![];
    for k in 0..n {
        let x = c0.wrapping_add(k.wrapping_mul(st));
        if a5::get_resolution(x) == r && deserialize(x).and_then(|c| serialize(&c)).map(|y| y == x).unwrap_or(false) { out.push(x); }
    }
    if rng.chance(0.3) { out.extend(random_antichain(rng, 10)); }
    out.sort_unstable(); out.dedup();
    // an antichain is required: drop anything that has an ancestor in the list
    let snapshot = out.clone();
    out.retain(|&x| { let rx = a5::get_resolution(x); !snapshot.iter().any(|&y| y != x && a5::get_resolution(y) < rx && a5::cell_to_parent(x, Some(a5::get_resolution(y))).map(|a| a == y).unwrap_or(false)) });
    rng.shuffle(&mut out);
    out
}

fn overlapping(rng: &mut Rng, base: &[u64]) -> Vec<u64> {
    let mut v = base.to_vec();
    let n = 1 + rng.below(4);
    for _ in 0..n {
        if base.is_empty() { break; }
        let c = *rng.pick(base);
        let r = res_of(c);
        match rng.below(3) {
            0 if r >= 0 => v.push(a5::cell_to_parent(c, Some(rng.range(-1, (r - 1) as i64) as i32)).unwrap()),
            1 if r < 28 => v.extend(a5::cell_to_children(c, Some(r + 1 + rng.below(2) as i32)).unwrap().into_iter().filter(|_| rng.chance(0.6))),
            _ => if r >= 0 { v.push(a5::cell_to_parent(c, None).unwrap()) },
        }
    }
    v
}

fn refine(rng: &mut Rng, a: &[u64]) -> Vec<u64> {
    // same region, finer description: some cells replaced by all their children (once or twice)
    let mut b = vec![];
    for &c in a {
        if res_of(c) < 28 && rng.chance(0.5) {
            for k in children(c) {
                if rng.chance(0.3) && res_of(k) < 29 { b.extend(children(k)); } else { b.push(k); }
            }
        } else {
            b.push(c);
        }
    }
    b
}

fn mc_inputs(path: Option<&str>) -> Vec<(Vec<u64>, bool)> {
    let mut v = vec![];
    if let Some(p) = path {
        if let Ok(txt) = std::fs::read_to_string(p) {
            for line in txt.lines() {
                if let Ok(j) = serde_json::from_str::<Value>(line) {
                    if j["kind"] == "compact" {
                        let cells: Vec<u64> = j["cells"].as_array().unwrap().iter().map(|c| serialize(&cell_from_json(c)).unwrap()).collect();
                        v.push((cells, j["antichain"].as_bool().unwrap_or(false)));
                    }
                }
            }
        }
    }
    v
}

fn fixture_lists() -> Vec<Vec<u64>> {
    let mut lists = vec![];
    if let Ok(txt) = std::fs::read_to_string("/repo/tests/fixtures/compact.json") {
        if let Ok(v) = serde_json::from_str::<Value>(&txt) {
            collect_hex_lists(&v, &mut lists);
        }
    }
    lists.retain(|l| !l.is_empty() && l.len() <= 400);
    lists
}

/// a very large, almost irreducible input: all descendants of `root` at depth d with the last child of every sibling
/// group removed, except for a few groups left complete (random ones and ones placed so that, in sorted order, they
/// straddle multiples of 2^12 / 2^16).  Far too large to ship to TLC: the harness counts, TLC judges the counts.
fn bigcompact_event(rng: &mut Rng, depth: i32) -> Value {
    let r = 2 + rng.below((29 - depth - 1) as u64) as i32;
    let h = r - 1;
    let root = serialize(&A5Cell { origin_id: rng.below(12) as u8, segment: rng.below(5) as usize, s: rng.next() & ((1u64 << (2 * h)) - 1), resolution: r }).unwrap();
    let parents = a5::cell_to_children(root, Some(r + depth - 1)).unwrap();
    let ngroups = parents.len();
    // complete groups placed so that, in the sorted list, they straddle a multiple of 2^12 or 2^16: with c complete groups
    // before it, group g starts at index 3 g + c; boundaries are taken in increasing order so that c is known
    let mut complete: Vec<usize> = vec![];
    let mut bounds: Vec<u64> = (1..=3u64).map(|j| j << 16).collect();
    bounds.extend([1u64 << 12, 5u64 << 12, 37u64 << 12]);
    bounds.sort_unstable();
    for b in bounds {
        let cnt = complete.len() as u64;
        for off in 1..=3u64 {
            let t = b - off;                       // wanted start index: the group then covers t .. t+3, across b
            if t >= cnt && (t - cnt) % 3 == 0 { let g = ((t - cnt) / 3) as usize; if g < ngroups && !complete.contains(&g) { complete.push(g); } break; }
        }
    }
    // and a few random ones behind them
    let last = complete.iter().copied().max().unwrap_or(0);
    for _ in 0..5 { if last + 1 < ngroups { complete.push(last + 1 + rng.below((ngroups - last - 1) as u64) as usize); } }
    complete.sort_unstable(); complete.dedup();
    let mut input: Vec<u64> = Vec::with_capacity(ngroups * 4);
    for (g, &p) in parents.iter().enumerate() {
        let kids = a5::cell_to_children(p, None).unwrap();
        if complete.binary_search(&g).is_ok() { input.extend(kids); } else { input.extend(&kids[..3]); }
    }
    let n_in = input.len();
    let (ok, outv) = compact_call(&input);
    let outset: std::collections::HashSet<u64> = outv.iter().copied().collect();
    let parents_present = complete.iter().filter(|&&g| outset.contains(&parents[g])).count();
    let mut leftovers = 0usize;
    for &g in &complete { for k in a5::cell_to_children(parents[g], None).unwrap() { if outset.contains(&k) { leftovers += 1; } } }
    json!({"op": "bigcompact", "root": quads(root), "depth": depth, "n_in": n_in, "groups_complete": complete.len(), "ok": ok,
           "out_len": outv.len(), "parents_present": parents_present, "leftovers": leftovers, "dups": outv.len() - outset.len()})
}

pub fn gen_c08(tier: &str, seed: u64, out: &str, mc: Option<&str>) -> Value {
    let mut rng = Rng::new(seed ^ 0xC08);
    let mut t = Trace::new(out, "c08", 120);
    let cap = if tier == "thorough" { 4096 } else { 1024 };
    let (mut n, mut n_over, mut n_mc) = (0u64, 0u64, 0u64);
    let inputs = mc_inputs(mc);
    let stride = if tier == "thorough" { 1 } else { (inputs.len() / 2500).max(1) };
    for (i, (cells, anti)) in inputs.iter().enumerate() {
        if i % stride != 0 { continue; }
        t.emit(compact8_event(cells, &mut rng, if cells.len() <= 6 { 4 } else { 3 }, cap));
        n += 1; n_mc += 1;
        if !anti { n_over += 1; }
        t.cut();
    }
    // one element repeated 255 / 256 / 257 / 513 times next to a few others
    for k in [255usize, 256, 257, 513] {
        let base = random_antichain(&mut rng, 20);
        if base.is_empty() { continue; }
        let mut l = base.clone();
        l.extend(vec![base[0]; k]);
        t.emit(compact8_event(&l, &mut rng, 3, 0));
        n += 1;
        t.cut();
    }
    for l in fixture_lists() {
        t.emit(compact8_event(&l, &mut rng, 3, cap));
        n += 1;
        t.cut();
    }
    for _ in 0..(if tier == "thorough" { 6000 } else { 600 }) {
        t.emit(compact8_event(&transplanted(&mut rng), &mut rng, 2, cap));
        t.emit(compact8_event(&wrong_stride(&mut rng), &mut rng, 2, cap));
        n += 2;
        t.cut();
    }
    let cases = if tier == "thorough" { 6000 } else { 500 };
    for i in 0..cases {
        let base = match i % 5 { 0 => lowres_mix(&mut rng), 1 if i % 2 == 0 => { let l = if i % 20 == 6 { 30 } else { 5 + rng.below(26) as i32 }; deep_chain(&mut rng, l, i % 4 == 0 && i % 20 != 6) }
                                  2 if i % 2 == 0 => run_list(&mut rng, (i / 10 % 6) as u64),
                                  _ => random_antichain(&mut rng, if i % 7 == 0 { 250 } else { 60 }) };
        if base.is_empty() { continue; }
        let cells = if i % 3 == 0 { n_over += 1; overlapping(&mut rng, &base) } else { base };
        t.emit(compact8_event(&cells, &mut rng, 3, cap));
        n += 1;
        t.cut();
    }
    t.finish();
    let sample = compact8_event(&lowres_mix(&mut rng)[..].iter().copied().take(8).collect::<Vec<_>>(), &mut rng, 2, 0);
    json!({"files": t.files, "events": t.events, "compact_sets": n, "overlapping_sets": n_over, "mc_replayed": n_mc, "samples": [sample]})
}

pub fn gen_c10(tier: &str, seed: u64, out: &str, mc: Option<&str>) -> Value {
    let mut rng = Rng::new(seed ^ 0xC10);
    let mut t = Trace::new(out, "c10", 150);
    let (mut n, mut n_pairs, mut n_mc) = (0u64, 0u64, 0u64);
    let inputs = mc_inputs(mc);
    let anti: Vec<&(Vec<u64>, bool)> = inputs.iter().filter(|x| x.1).collect();
    let stride = if tier == "thorough" { 1 } else { (anti.len() / 3000).max(1) };
    for (i, (cells, _)) in anti.iter().enumerate() {
        if i % stride != 0 { continue; }
        t.emit(compact10_event(cells));
        n += 1; n_mc += 1;
        t.cut();
    }
    for l in fixture_lists() {
        t.emit(compact10_event(&l));
        n += 1;
        t.cut();
    }
    for _ in 0..(if tier == "thorough" { 6000 } else { 600 }) {
        t.emit(compact10_event(&transplanted(&mut rng)));
        t.emit(compact10_event(&wrong_stride(&mut rng)));
        n += 2;
        t.cut();
    }
    let cases = if tier == "thorough" { 8000 } else { 700 };
    for i in 0..cases {
        let a = match i % 4 { 0 => lowres_mix(&mut rng), 1 => { let l = if i % 16 == 1 { 30 } else if i % 16 == 5 { 29 } else { 4 + rng.below(27) as i32 }; deep_chain(&mut rng, l, i % 8 == 1 && i % 16 != 1) }
                              2 if i % 8 == 2 => run_list(&mut rng, [0, 1, 4, 5][(i / 8 % 4) as usize]),
                              _ => random_antichain(&mut rng, if i % 9 == 0 { 250 } else { 60 }) };
        if a.is_empty() { continue; }
        t.emit(compact10_event(&a));
        n += 1;
        if i % 2 == 0 {
            let b = refine(&mut rng, &a);
            if b.len() <= 600 {
                t.emit(compactpair_event(&a, &b));
                n_pairs += 1;
            }
        }
        t.cut();
    }
    // very large inputs (hundreds of thousands of cells)
    let mut n_big = 0u64;
    for i in 0..(if tier == "thorough" { 12 } else { 3 }) {
        t.emit(bigcompact_event(&mut rng, if i % 3 == 2 { 10 } else { 9 }));
        n_big += 1;
        t.cut();
    }
    t.finish();
    let s: Vec<u64> = children(children(0)[3]);
    json!({"files": t.files, "events": t.events, "compact_calls": n, "equal_cover_pairs": n_pairs, "very_large_inputs": n_big, "mc_replayed": n_mc,
           "samples": [compact10_event(&s)]})
}
