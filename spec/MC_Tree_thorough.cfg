SPECIFICATION Spec
CONSTANTS
  MaxR = 5
  MaxT = 7
INVARIANTS ChildrenLaw AncestorCompose ChildrenCompose ParentIsAnc Partition IdTree
CHECK_DEADLOCK FALSE
