----------------------------- MODULE MC_Compact -----------------------------
(***************************************************************************)
(* compact() as a state machine over a restricted cell universe (C08/C10). *)
(* TLC enumerates every input of the chosen family, runs the pass loop     *)
(* (one action per pass) and checks in every state that the cover is       *)
(* preserved, and at termination that the result has no duplicates, is     *)
(* maximal / canonical for non-overlapping inputs, and is a fixed point.   *)
(* Every explored input is dumped for replay on the real compact().        *)
(***************************************************************************)
EXTENDS A5Compact, TLC, Json

CONSTANTS Variant,      \* "v062" | "resorted"
          Family        \* "subsets" | "antichains" | "faces"
          , Size        \* "quick" | "thorough"

VARIABLES pc, input, cur, changed, npass
vars == <<pc, input, cur, changed, npass>>

B(f) == [res |-> 0, face |-> f, seg |-> 0, s |-> <<>>]
Qr(f, rel) == [res |-> 1, face |-> f, seg |-> SegOf(f, rel), s |-> <<>>]    \* quintant by face-relative number
Quints(f) == {Qr(f, k) : k \in 0..4}
Kids(c) == ChildrenOf(c)

\* (i) all subsets of a universe in which base cells interleave with foreign quintants
USubsets == IF Size = "quick"
              THEN {B(0), B(2)} \cup Quints(0) \cup {Qr(2, 0)} \cup Kids(Qr(0, 0))
              ELSE {B(0), B(1), B(2)} \cup Quints(0) \cup {Qr(2, 0), Qr(2, 1)} \cup Kids(Qr(0, 0)) \cup {World}
\* (ii) antichains below one quintant: each child is absent, present, or replaced by a subset of its children
AQ == Qr(7, 2)
ChildOptions(k, full) == IF full THEN {{k}} \cup SUBSET Kids(k)
                                 ELSE {{}, {k}, Kids(k), Kids(k) \ {CHOOSE x \in Kids(k) : TRUE}}
AntichainInputs ==
  LET ks == SetToSeq(Kids(AQ))
      nfull == IF Size = "quick" THEN 2 ELSE 4
  IN {o1 \cup o2 \cup o3 \cup o4 : o1 \in ChildOptions(ks[1], nfull >= 1), o2 \in ChildOptions(ks[2], nfull >= 2),
                                   o3 \in ChildOptions(ks[3], nfull >= 3), o4 \in ChildOptions(ks[4], nfull >= 4)}
     \cup {{AQ}}
\* (iii) per-face modes: absent, base cell, five quintants, four quintants, quintants with one split
FaceMode(f, m) ==
  CASE m = 0 -> {}
    [] m = 1 -> {B(f)}
    [] m = 2 -> Quints(f)
    [] m = 3 -> Quints(f) \ {Qr(f, 3)}
    [] m = 4 -> (Quints(f) \ {Qr(f, 1)}) \cup Kids(Qr(f, 1))
RepFaces == IF Size = "quick" THEN <<0, 1, 2>> ELSE <<0, 1, 2, 3, 5, 11>>
RestFaces == (0..11) \ {RepFaces[i] : i \in 1..Len(RepFaces)}
FaceInputs ==
  {UNION {FaceMode(RepFaces[i], ms[i]) : i \in 1..Len(RepFaces)} \cup UNION {FaceMode(f, rest) : f \in RestFaces} :
     ms \in [1..Len(RepFaces) -> 0..4], rest \in {0, 1, 2}}

\* (iv) overlapping low-resolution mixes: a base cell together with its own quintants, the world cell
ULow == {World, B(0), B(1), B(5)} \cup Quints(1)
\* (v) the same parent/children/sibling structure at the deep end of the resolution range (res 27..29)
DeepP == [res |-> 28, face |-> 11, seg |-> 2, s |-> [k \in 1..27 |-> IF k = 27 THEN 1 ELSE 3 - (k % 4)]]
UDeep == {DeepP, Parent(DeepP)} \cup Kids(DeepP) \cup (Kids(Parent(DeepP)) \ {DeepP})
Inputs == CASE Family = "subsets" -> SUBSET USubsets
            [] Family = "deep" -> SUBSET UDeep
            [] Family = "lowres" -> SUBSET ULow
            [] Family = "antichains" -> AntichainInputs
            [] Family = "faces" -> FaceInputs

---------------------------------------------------------------------------
Init == pc = "start" /\ input = {} /\ cur = <<>> /\ changed = FALSE /\ npass = 0

Choose == /\ pc = "start"
          /\ \E S \in Inputs :
               /\ input' = S
               /\ cur' = SortedById(S)          \* HashSet de-duplication + sort_unstable()
               /\ pc' = IF S = {} THEN "done" ELSE "pass"
               /\ changed' = TRUE /\ npass' = 0

Pass == /\ pc = "pass" /\ changed
        /\ LET start == IF Variant = "resorted" THEN SortedByResId(SeqSet(cur)) ELSE cur
               r == Scan(start, 1, <<>>, FALSE)
           IN /\ cur' = r[1]
              /\ changed' = r[2]
              /\ npass' = npass + 1
        /\ UNCHANGED <<pc, input>>

Finish == /\ pc = "pass" /\ ~changed
          /\ pc' = "done"
          /\ cur' = IF Variant = "resorted" THEN SortedById(SeqSet(cur)) ELSE cur
          /\ UNCHANGED <<input, changed, npass>>

Next == Choose \/ Pass \/ Finish
Spec == Init /\ [][Next]_vars

---------------------------------------------------------------------------
Result == SeqSet(cur)
R0 == Finest(input)

\* C08: every pass preserves the covered set (not only the final result)
CoverPreserved == pc \in {"pass", "done"} => Cover(Result, R0) = Cover(input, R0)
NoDuplicates == pc = "done" => Len(cur) = Cardinality(Result)
\* the assumption written in the code: "No re-sorting needed - parents maintain sorted order!"
SortedAtPassStart == (pc = "pass" /\ Variant = "v062") => IsSortedById(cur)

\* C10 (non-overlapping inputs)
MaximalAtEnd == (pc = "done" /\ Antichain(input)) => Maximal(Result)
CanonicalAtEnd == (pc = "done" /\ Antichain(input)) => Result = CanonSet(input)
FixedPoint == (pc = "done" /\ Antichain(input)) =>
                 LET r == Scan(IF Variant = "resorted" THEN SortedByResId(Result) ELSE SortedById(Result), 1, <<>>, FALSE)
                 IN ~r[2]
\* abstract theorem that makes "canonical" meaningful: equal covers <=> equal canonical forms
CanonCharacterisesCover ==
  pc = "done" => /\ Cover(CanonSet(input), R0) = Cover(input, R0)
                 /\ Antichain(CanonSet(input)) /\ Maximal(CanonSet(input))
Terminates == npass <= 6
\* liveness (checked under weak fairness in MC_Compact_live.cfg): the loop reaches "done", because every pass that reports a
\* change has strictly shortened the list (the variant function of the loop)
LiveSpec == Spec /\ WF_vars(Next)
Termination == <>(pc = "done")
PassShrinks == [][(pc = "pass" /\ pc' = "pass" /\ changed') => Len(cur') < Len(cur)]_vars

Dump == pc = "done" /\ input # {} =>
          PrintT("REPLAY " \o ToJson([kind |-> "compact", cells |-> SetToSeq(input), antichain |-> Antichain(input)]))
=============================================================================
