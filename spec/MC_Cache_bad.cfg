SPECIFICATION Spec
CONSTANTS
  Threads = {1}
  Keys <- KeysSmall
  MaxCalls = 2
  ReflOffset = 10
  SquashOffset = 20
  SphReflOffset = 100
INVARIANTS Purity SlotsHoldOwnValue OnceSafety SlotArithmetic Dump
CHECK_DEADLOCK FALSE
