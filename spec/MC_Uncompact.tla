--------------------------- MODULE MC_Uncompact ---------------------------
(***************************************************************************)
(* uncompact (C09): the implementation-shaped expansion (pre-count with    *)
(* the code's get_num_children formula, then cell_to_children in the       *)
(* code's loop order) against the abstract relation  "concatenation, in    *)
(* input order, of the descendant blocks; error iff some input is finer".  *)
(* Every explored (list, target) is dumped for replay on the real code.    *)
(***************************************************************************)
EXTENDS A5Tree, TLC, Json

CONSTANTS MaxLen, MaxTarget, DeepTargets

VARIABLES cells, target, phase
vars == <<cells, target, phase>>

B(f) == [res |-> 0, face |-> f, seg |-> 0, s |-> <<>>]
Qn(f, g) == [res |-> 1, face |-> f, seg |-> g, s |-> <<>>]
Universe == {World, B(0), B(7), Qn(0, 0), Qn(0, 4), Qn(7, 3),
             [res |-> 2, face |-> 0, seg |-> 0, s |-> <<0>>], [res |-> 2, face |-> 7, seg |-> 3, s |-> <<3>>],
             [res |-> 3, face |-> 7, seg |-> 3, s |-> <<3, 1>>], [res |-> 4, face |-> 11, seg |-> 2, s |-> <<2, 0, 3>>],
             \* the deep end of the range: the last curve position of a quintant at res 27 and 28, a res-29 cell
             [res |-> 27, face |-> 5, seg |-> 1, s |-> [k \in 1..26 |-> 3]], [res |-> 28, face |-> 5, seg |-> 1, s |-> [k \in 1..27 |-> 3]],
             [res |-> 29, face |-> 2, seg |-> 4, s |-> [k \in 1..28 |-> k % 4]]}

Init == cells = <<>> /\ target = -1 /\ phase = "build"
Add == phase = "build" /\ Len(cells) < MaxLen /\ \E x \in Universe : cells' = Append(cells, x) /\ UNCHANGED <<target, phase>>
Call == phase = "build" /\ Len(cells) >= 1 /\ \E t \in (-1..MaxTarget) \cup DeepTargets : target' = t /\ phase' = "called" /\ UNCHANGED cells
Next == Add \/ Call
Spec == Init /\ [][Next]_vars

---------------------------------------------------------------------------
\* the code's get_num_cells / get_num_children (exact where it fits 32 bits)
CodeNumCells(r) == IF r < 0 THEN 0 ELSE IF r = 0 THEN 12 ELSE 60 * Pow4(r - 1)
CodeNumChildren(p, r) ==
  IF r < p THEN 0 ELSE IF r = p THEN 1
  ELSE IF p >= 2 THEN Pow4(r - p)
  ELSE LET pc == IF CodeNumCells(p) = 0 THEN 1 ELSE CodeNumCells(p) IN CodeNumCells(r) \div pc

\* cell_to_children in the code's loop order: faces, then segments 0..4, then curve positions
RECURSIVE DigitSeqs(_)
DigitSeqs(n) == IF n = 0 THEN << <<>> >>
                ELSE LET prev == DigitSeqs(n - 1)
                     IN [i \in 1..(4 * Len(prev)) |-> Append(prev[((i - 1) \div 4) + 1], (i - 1) % 4)]
RECURSIVE Flatten(_)
Flatten(ss) == IF ss = <<>> THEN <<>> ELSE Head(ss) \o Flatten(Tail(ss))
CodeChildren(c, t) ==
  IF t = c.res THEN <<c>>
  ELSE LET faces == IF c.res = -1 THEN [i \in 1..12 |-> i - 1] ELSE <<c.face>>
           segs == IF (c.res = -1 /\ t > 0) \/ c.res = 0 THEN <<0, 1, 2, 3, 4>> ELSE <<c.seg>>
           base == IF c.res > 1 THEN c.res ELSE 1
           ds == DigitSeqs(IF t > base THEN t - base ELSE 0)
       IN Flatten([fi \in 1..Len(faces) |->
            Flatten([gi \in 1..Len(segs) |->
              [di \in 1..Len(ds) |-> [res |-> t, face |-> faces[fi], seg |-> IF t = 0 THEN 0 ELSE segs[gi],
                                       s |-> IF t >= 2 THEN c.s \o ds[di] ELSE <<>>]]])])

Finer == \E k \in 1..Len(cells) : cells[k].res > target
Impl == IF Finer THEN [ok |-> FALSE, out |-> <<>>]
        ELSE [ok |-> TRUE, out |-> Flatten([k \in 1..Len(cells) |-> CodeChildren(cells[k], target)])]
PreCount == IF Finer THEN 0
            ELSE LET RECURSIVE S(_)
                     S(k) == IF k > Len(cells) THEN 0 ELSE CodeNumChildren(cells[k].res, target) + S(k + 1)
                 IN S(1)

\* abstract relation (what C09 states)
RECURSIVE BlocksAbs(_, _)
BlocksAbs(k, out) ==
  IF k > Len(cells) THEN out = <<>>
  ELSE LET n == NumDescInt(cells[k].res, target)
       IN /\ Len(out) >= n
          /\ {out[i] : i \in 1..n} = Desc(cells[k], target)
          /\ Cardinality({out[i] : i \in 1..n}) = n
          /\ BlocksAbs(k + 1, SubSeq(out, n + 1, Len(out)))

\* calls whose honest result exceeds 4^8 cells are outside the property (and outside 32-bit counting)
Feasible == \A k \in 1..Len(cells) : cells[k].res > target \/ NumDesc(cells[k].res, target)[2] <= 6
ImplMeetsSpec ==
  (phase = "called" /\ (Finer \/ Feasible)) =>
    LET r == Impl IN
      IF Finer THEN ~r.ok /\ r.out = <<>>
      ELSE r.ok /\ BlocksAbs(1, r.out) /\ Len(r.out) = PreCount

Dump == (phase = "called" /\ Feasible) =>
          PrintT("REPLAY " \o ToJson([kind |-> "uncompact", cells |-> cells, target |-> target]))
=============================================================================
