----------------------------- MODULE A5Hilbert -----------------------------
(***************************************************************************)
(* The space-filling curve of A5 inside one quintant, as integer           *)
(* arithmetic.  Transcribed from src/core/hilbert.rs and                   *)
(* src/core/tiling.rs of the pinned tree (v0.6.2):                         *)
(*   Anchor(dg, n, o)   = s_to_anchor          (digit walk with PATTERN    *)
(*                        shifts and flip state, orientation pro/epilogue) *)
(*   Tile(anchor)       = get_pentagon_vertices reduced to                 *)
(*                        << rotated?, reflected?, lattice i, lattice j >> *)
(*   TriOf(tile)        = the lattice triangle the pentagon sits on        *)
(*   TriToS(tri, n, o)  = ij_to_s restricted to interior points of a       *)
(*                        lattice triangle (every float comparison of      *)
(*                        ij_to_quaternary becomes an integer comparison)  *)
(* A curve position is a function dg : 0..n-1 -> 0..3, index 0 least       *)
(* significant, exactly as in s_to_anchor_internal.                        *)
(***************************************************************************)
EXTENDS Naturals, Integers, Sequences, FiniteSets

Orientations == {"UV", "VU", "UW", "WU", "VW", "WV"}

PATTERN  == <<0, 1, 3, 4, 5, 6, 7, 2>>
PATTERNF == <<0, 1, 2, 7, 3, 4, 5, 6>>
Rev(p) == [x \in 1..8 |-> (CHOOSE y \in 1..8 : p[y] = x - 1) - 1]

\* quaternary_to_flips
Q2F(d) == CASE d = 0 -> <<1, 1>> [] d = 1 -> <<1, -1>> [] d = 2 -> <<1, 1>> [] d = 3 -> <<-1, 1>>
\* quaternary_to_kj
Q2KJ(d, fl) ==
  LET pq == CASE fl = <<1, 1>>   -> << <<1, 0>>,  <<0, 1>>  >>
              [] fl = <<-1, 1>>  -> << <<0, -1>>, <<-1, 0>> >>
              [] fl = <<1, -1>>  -> << <<0, 1>>,  <<1, 0>>  >>
              [] fl = <<-1, -1>> -> << <<-1, 0>>, <<0, -1>> >>
      p == pq[1]  q == pq[2]
  IN CASE d = 0 -> <<0, 0>> [] d = 1 -> p [] d = 2 -> <<q[1] + p[1], q[2] + p[2]>>
       [] d = 3 -> <<q[1] + 2 * p[1], q[2] + 2 * p[2]>>
Mul(f, g) == <<f[1] * g[1], f[2] * g[2]>>

\* shift_digits
Shift(dg, i, fl, invJ, pat) ==
  IF i = 0 THEN dg ELSE
  LET pk == dg[i]  ck == dg[i - 1]  alt == (invJ # (fl[1] + fl[2] = 0))
      needs == IF alt THEN pk \in {1, 2} ELSE pk < 2
      first == IF alt THEN pk = 1 ELSE pk = 0
  IN IF ~needs THEN dg ELSE
     LET src == IF first THEN ck ELSE ck + 4   dst == pat[src + 1]
     IN [dg EXCEPT ![i - 1] = dst % 4, ![i] = (pk + 4 + (dst \div 4) - (src \div 4)) % 4]

RECURSIVE Pass1(_, _, _, _, _)   \* digit shifting, most significant digit first
Pass1(dg, i, fl, invJ, pat) == IF i < 0 THEN dg ELSE
  LET d2 == Shift(dg, i, fl, invJ, pat) IN Pass1(d2, i - 1, Mul(fl, Q2F(d2[i])), invJ, pat)
RECURSIVE Pass2(_, _, _, _)     \* offset accumulation in kj units
Pass2(dg, i, fl, off) == IF i < 0 THEN <<off, fl>> ELSE
  LET c == Q2KJ(dg[i], fl) IN Pass2(dg, i - 1, Mul(fl, Q2F(dg[i])), <<2 * off[1] + c[1], 2 * off[2] + c[2]>>)

\* s_to_anchor_internal
Internal(dg, n, invJ, flipIJ) ==
  LET d2 == Pass1(dg, n - 1, <<1, 1>>, invJ, IF flipIJ THEN PATTERNF ELSE PATTERN)
      r == Pass2(d2, n - 1, <<1, 1>>, <<0, 0>>)   kj == r[1]
  IN [k |-> d2[0], fl |-> r[2], i |-> kj[1] - kj[2], j |-> kj[2]]

\* s_to_anchor
Anchor(dg, n, o) ==
  LET rev == o \in {"VU", "WU", "VW"}  invJ == o \in {"WV", "VW"}  flipIJ == o \in {"WU", "UW"}
      din == IF rev THEN [x \in 0..n - 1 |-> 3 - dg[x]] ELSE dg      \* 4^n - 1 - s
      a  == Internal(din, n, invJ, flipIJ)
      a1 == IF ~flipIJ THEN a ELSE
              LET b  == [a EXCEPT !.i = a.j, !.j = a.i]
                  b1 == IF b.fl[1] = -1 THEN [b EXCEPT !.i = b.i - 1, !.j = b.j + 1] ELSE b
              IN IF b1.fl[2] = -1 THEN [b1 EXCEPT !.i = b1.i + 1, !.j = b1.j - 1] ELSE b1
  IN IF ~invJ THEN a1 ELSE [a1 EXCEPT !.j = 2 ^ n - (a1.i + a1.j), !.fl = <<-a1.fl[1], a1.fl[2]>>]

\* get_pentagon_vertices as a discrete tile: isometry class + lattice translate
Tile(a) ==
  LET F == a.fl[1] + a.fl[2]
      refl == ((F = -2 \/ F = 2) /\ a.k > 1) \/ (F = 0 /\ (a.k = 0 \/ a.k = 3))
      rot  == (a.fl = <<1, -1>>) # (a.fl = <<-1, -1>>)
      dj   == IF a.fl = <<-1, 1>> THEN -1 ELSE IF a.fl = <<1, -1>> THEN 1 ELSE 0
  IN [rot |-> rot, refl |-> refl, i |-> a.i, j |-> a.j + dj]
TriOf(t) == IF t.rot THEN [up |-> FALSE, i |-> t.i - 1, j |-> t.j - 1]
                     ELSE [up |-> TRUE,  i |-> t.i,     j |-> t.j]
ParityOK(t) == LET tr == TriOf(t) IN ((tr.i + tr.j) % 2 = 0) = ~t.refl

\* the lattice triangles of a quintant at depth n (4^n of them)
InTriSet(t, n) == /\ t.i >= 0 /\ t.j >= 0
                  /\ IF t.up THEN t.i + t.j <= 2 ^ n - 1 ELSE t.i + t.j <= 2 ^ n - 2
TriSet(n) == {t \in [up : {TRUE},  i : 0..2 ^ n - 1, j : 0..2 ^ n - 1] : t.i + t.j <= 2 ^ n - 1}
        \cup {t \in [up : {FALSE}, i : 0..2 ^ n - 1, j : 0..2 ^ n - 1] : t.i + t.j <= 2 ^ n - 2}

\* ij_to_s on the interior of a lattice triangle: a coordinate is X + f, X integer, 0 < f < 1,
\* so  (X+f)/2^e < 1  <=>  X < 2^e   and   -(X+f)/2^e < 1  <=>  X >= -2^e ;  "> 1" is the negation
Lt1(X, neg, e) == IF neg THEN X >= -(2 ^ e) ELSE X < 2 ^ e
Gt1(X, neg, e) == ~Lt1(X, neg, e)
Quat(Xu, Xv, S, fl, e) ==            \* ij_to_quaternary; S = integer part of u+v
  LET n0 == fl[1] = -1  n1 == fl[2] = -1 IN
  IF fl[1] + fl[2] = 0
    THEN IF Lt1(Xv, n0, e) THEN 0 ELSE IF Gt1(Xu, n1, e) THEN 3 ELSE IF Gt1(S, n0, e) THEN 2 ELSE 1
    ELSE IF Lt1(S,  n0, e) THEN 0 ELSE IF Gt1(Xu, n1, e) THEN 3 ELSE IF Gt1(Xv, n0, e) THEN 2 ELSE 1
RECURSIVE Loc(_, _, _, _, _)
Loc(tr, e, fl, piv, dg) == IF e < 0 THEN <<dg, fl>> ELSE
  LET Xu == tr.i - piv[1]  Xv == tr.j - piv[2]  S == Xu + Xv + (IF tr.up THEN 0 ELSE 1)
      d == Quat(Xu, Xv, S, fl, e)   kj == Q2KJ(d, fl)   co == <<kj[1] - kj[2], kj[2]>>
  IN Loc(tr, e - 1, Mul(fl, Q2F(d)), <<piv[1] + co[1] * 2 ^ e, piv[2] + co[2] * 2 ^ e>>, [dg EXCEPT ![e] = d])
RECURSIVE Unshift(_, _, _, _, _, _)        \* second loop of ij_to_s_internal; flips carry over
Unshift(dg, i, fl, invJ, pat, n) == IF i > n - 1 THEN dg ELSE
  LET f2 == Mul(fl, Q2F(dg[i])) IN Unshift(Shift(dg, i, f2, invJ, pat), i + 1, f2, invJ, pat, n)
TriToS(tr0, n, o) ==
  LET rev == o \in {"VU", "WU", "VW"}  invJ == o \in {"WV", "VW"}  flipIJ == o \in {"WU", "UW"}
      t1 == IF flipIJ THEN [tr0 EXCEPT !.i = tr0.j, !.j = tr0.i] ELSE tr0
      t2 == IF invJ THEN [t1 EXCEPT !.j = 2 ^ n - t1.i - t1.j - (IF t1.up THEN 1 ELSE 2)] ELSE t1
      r  == Loc(t2, n - 1, <<1, 1>>, <<0, 0>>, [x \in 0..n - 1 |-> 0])
      dg == Unshift(r[1], 0, r[2], invJ, IF flipIJ THEN Rev(PATTERNF) ELSE Rev(PATTERN), n)
  IN IF rev THEN [x \in 0..n - 1 |-> 3 - dg[x]] ELSE dg

\* parent / child tile configurations
Child(dg, n, c) == [x \in 0..n |-> IF x = 0 THEN c ELSE dg[x - 1]]
RelOfTiles(p, k) == <<p.rot, p.refl, k.rot, k.refl, k.i - 2 * p.i, k.j - 2 * p.j>>
Rel(dg, n, o, c) == RelOfTiles(Tile(Anchor(dg, n, o)), Tile(Anchor(Child(dg, n, c), n + 1, o)))

(***************************************************************************)
(* Transducer view of the parent/child relation.  The walk processes       *)
(* digits from the most significant end, so the computations for a parent  *)
(* (n digits) and for its child c (the same digits followed by c) coincide *)
(* up to the parent's last digit.  What happens afterwards depends only on *)
(* a LOCAL state: the flip state fl reached before the parent's last       *)
(* digit, that digit pk (as left by the shift one level up), the child     *)
(* digit ck and the orientation.  LocalRel recomputes the configuration    *)
(* from that local state alone (prefix offset 0); MC_Hilbert checks        *)
(*   (a) LocalRel = Rel on every explored position (n <= 7), and           *)
(*   (b) LocalRel over ALL local states lies in Configs16,                 *)
(* so the closure of the 16 configurations holds at every depth as far as  *)
(* (a) expresses the structure of the algorithm.                           *)
(***************************************************************************)
\* state of the walk just before the parent's last digit: flips after pass 1 and after pass 2 coincide
\* only digit-wise, so both are replayed on the local two-digit problem
LocalAnchor(fl0, dgs, n, invJ, flipIJ) ==
  \* run both passes on the digit function dgs (length n in {1, 2}) starting from flip state fl0 and offset 0
  LET pat == IF flipIJ THEN PATTERNF ELSE PATTERN
      d2 == Pass1(dgs, n - 1, fl0, invJ, pat)
      r == Pass2(d2, n - 1, fl0, <<0, 0>>)
  IN [k |-> d2[0], fl |-> r[2], i |-> r[1][1] - r[1][2], j |-> r[1][2]]
LocalEpilogue(a, invJ, flipIJ) ==
  LET a1 == IF ~flipIJ THEN a ELSE
              LET b  == [a EXCEPT !.i = a.j, !.j = a.i]
                  b1 == IF b.fl[1] = -1 THEN [b EXCEPT !.i = b.i - 1, !.j = b.j + 1] ELSE b
              IN IF b1.fl[2] = -1 THEN [b1 EXCEPT !.i = b1.i + 1, !.j = b1.j - 1] ELSE b1
  \* the constant 2^n of the j-inversion cancels in  child - 2 * parent  and is dropped here
  IN IF ~invJ THEN a1 ELSE [a1 EXCEPT !.j = -(a1.i + a1.j), !.fl = <<-a1.fl[1], a1.fl[2]>>]
LocalRel(fl0, pk, ck, o) ==
  LET rev == o \in {"VU", "WU", "VW"}  invJ == o \in {"WV", "VW"}  flipIJ == o \in {"WU", "UW"}
      p == Tile(LocalEpilogue(LocalAnchor(fl0, [x \in 0..0 |-> pk], 1, invJ, flipIJ), invJ, flipIJ))
      c == Tile(LocalEpilogue(LocalAnchor(fl0, [x \in 0..1 |-> IF x = 1 THEN pk ELSE ck], 2, invJ, flipIJ), invJ, flipIJ))
  IN RelOfTiles(p, c)
\* the local state reached by the real walk on digits dg (parent, n digits) under orientation o
RECURSIVE Pass1Upto(_, _, _, _, _, _)
Pass1Upto(dg, i, fl, invJ, pat, stop) == IF i < stop THEN <<dg, fl>> ELSE
  LET d2 == Shift(dg, i, fl, invJ, pat) IN Pass1Upto(d2, i - 1, Mul(fl, Q2F(d2[i])), invJ, pat, stop)
LocalStateOf(dg, n, o) ==
  LET rev == o \in {"VU", "WU", "VW"}  invJ == o \in {"WV", "VW"}  flipIJ == o \in {"WU", "UW"}
      din == IF rev THEN [x \in 0..n - 1 |-> 3 - dg[x]] ELSE dg
      st == Pass1Upto(din, n - 1, <<1, 1>>, invJ, IF flipIJ THEN PATTERNF ELSE PATTERN, 1)
  IN [fl |-> st[2], pk |-> st[1][0], rev |-> rev]
FlipStates == {<<1, 1>>, <<1, -1>>, <<-1, 1>>, <<-1, -1>>}
LocalRelSet == {LocalRel(fl0, pk, ck, o) : fl0 \in FlipStates, pk \in 0..3, ck \in 0..3, o \in Orientations}

\* the complete set of configurations (measured with TLC: identical for n = 2..6, all orientations):
\* four child placements for each of the four tile types
Configs16 ==
  { <<FALSE, FALSE, FALSE, FALSE, 0, 0>>,  <<FALSE, FALSE, FALSE, TRUE, 1, 0>>,
    <<FALSE, FALSE, TRUE, FALSE, 1, 1>>,   <<FALSE, FALSE, TRUE, TRUE, 2, 1>>,
    <<FALSE, TRUE, FALSE, FALSE, 0, 0>>,   <<FALSE, TRUE, FALSE, TRUE, 0, 1>>,
    <<FALSE, TRUE, FALSE, TRUE, 1, 0>>,    <<FALSE, TRUE, TRUE, FALSE, 1, 1>>,
    <<TRUE, FALSE, FALSE, FALSE, -1, -1>>, <<TRUE, FALSE, FALSE, TRUE, -2, -1>>,
    <<TRUE, FALSE, TRUE, FALSE, 0, 0>>,    <<TRUE, FALSE, TRUE, TRUE, -1, 0>>,
    <<TRUE, TRUE, FALSE, FALSE, -1, -1>>,  <<TRUE, TRUE, TRUE, FALSE, 0, 0>>,
    <<TRUE, TRUE, TRUE, TRUE, -1, 0>>,     <<TRUE, TRUE, TRUE, TRUE, 0, -1>> }
=============================================================================
