SPECIFICATION Spec
INVARIANTS Relabelling FaceGraph SectorsConsistent Dump
CHECK_DEADLOCK FALSE
