SPECIFICATION Spec
INVARIANTS Relabelling FaceGraph Dump
CHECK_DEADLOCK FALSE
