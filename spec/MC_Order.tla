----------------------------- MODULE MC_Order -----------------------------
(***************************************************************************)
(* C20 on the specification: numeric (= lexicographic quad) order of IDs   *)
(* is compatible with the hierarchy from the quintant level down.          *)
(***************************************************************************)
EXTENDS A5Tree, TLC

CONSTANTS MaxR, DeepRes

VARIABLES phase, c
vars == <<phase, c>>

CellsAt(res) ==
  IF res = 0 THEN {[res |-> 0, face |-> f, seg |-> 0, s |-> <<>>] : f \in 0..11}
  ELSE {[res |-> res, face |-> f, seg |-> g, s |-> d] : f \in 0..11, g \in 0..4, d \in [1..H(res) -> Quad]}

DeepCells(res) ==
  {[res |-> res, face |-> f, seg |-> g, s |-> d] : f \in {0, 5, 11}, g \in {0, 3},
     d \in {AllDigit(H(res), 0), AllDigit(H(res), 3), Alternating(H(res), 1, 2), Alternating(H(res), 3, 0)}}

Init == phase = "start" /\ c = World
PickRes == phase = "start" /\ \E r \in 1..MaxR : phase' = "res" /\ c' = [World EXCEPT !.res = r]
PickFace == phase = "res" /\ \E f \in 0..11 : c' = [c EXCEPT !.face = f] /\ phase' = "face"
PickCell == phase = "face" /\ \E x \in {y \in CellsAt(c.res) : y.face = c.face \/ c.res = -1} : c' = x /\ phase' = "cell"
PickDeep == phase = "start" /\ \E r \in DeepRes : \E x \in DeepCells(r) : c' = x /\ phase' = "deep"
Next == PickRes \/ PickFace \/ PickCell \/ PickDeep
Spec == Init /\ [][Next]_vars

E(x) == Encode(x)

\* a < b (same resolution r >= 2) implies ancestors at every level 1..r are ordered
MonotoneAncestors ==
  phase = "cell" /\ c.res >= 2 =>
    \A b \in CellsAt(c.res) :
      Less(E(c), E(b)) => \A k \in 1..c.res : Leq(E(Anc(c, k)), E(Anc(b, k)))

\* the subtree of c (res >= 1) occupies one ID interval containing no foreign cell of res >= 1
Subtree(p, R) == UNION {Desc(p, t) : t \in p.res..R}
Contiguous ==
  phase = "cell" =>
    LET S == Subtree(c, MaxR)
        ids == {E(x) : x \in S}
        lo == CHOOSE i \in ids : \A j \in ids : Leq(i, j)
        hi == CHOOSE i \in ids : \A j \in ids : Leq(j, i)
    IN \A t \in 1..MaxR : \A x \in CellsAt(t) :
         (Leq(lo, E(x)) /\ Leq(E(x), hi)) => x \in S

\* the documented exception is real: a base-cell ID lies strictly inside the ID range of another
\* face's quintants (so the scope restriction "res >= 1" is not vacuous)
BaseCellsInterleave ==
  phase = "start" =>
    \E b \in CellsAt(0) : \E x \in CellsAt(1) : \E y \in CellsAt(1) :
      x.face = y.face /\ x.face # b.face /\ Less(E(x), E(b)) /\ Less(E(b), E(y))

\* deep levels: the four children are adjacent among same-resolution IDs, in digit order, and the
\* parent's ID lies strictly between child 1 and child 2 (child 0 and child 1 under a quintant)
DeepSiblings ==
  phase = "deep" =>
    LET k(d) == [c EXCEPT !.res = c.res + 1, !.s = Append(c.s, d)] IN
      /\ \A d \in 0..2 : Less(E(k(d)), E(k(d + 1)))
      /\ \A d \in 0..2 : AddAt(E(k(d)), 3 + H(c.res + 1), 1) = E(k(d + 1))   \* + stride
      /\ IF c.res >= 2 THEN Less(E(k(1)), E(c)) /\ Less(E(c), E(k(2)))
                       ELSE Less(E(k(0)), E(c)) /\ Less(E(c), E(k(1)))
      /\ \A a \in 1..c.res : Leq(E(Anc(k(0), a)), E(Anc(k(3), a)))
=============================================================================
