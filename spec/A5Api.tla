------------------------------- MODULE A5Api -------------------------------
(***************************************************************************)
(* The public API of a5-rs as relations between the arguments and results  *)
(* of recorded calls.  Each operator  XxxOK(e [, st])  is the weakest      *)
(* relation the corresponding property states, evaluated on what the       *)
(* IMPLEMENTATION returned (event record e, decoded from ND-JSON).         *)
(* Trace.tla turns these into the actions of a trace specification.        *)
(*                                                                         *)
(* IDs are quad strings (A5Digits); strings are sequences of ASCII codes.  *)
(***************************************************************************)
EXTENDS A5Compact, A5Hilbert, A5Origins, A5Mesh, A5Lon, A5LookupSteps, TLC

IsCanonRes(q, r) == IsQuads(q) /\ Canonical(q) /\ ResOfCanon(q) = r

\* a disagreement with the transcription of v0.6.2 that is NOT a property violation
Drift(cond, what) == IF cond THEN TRUE ELSE PrintT("DRIFT " \o what)

---------------------------------------------------------------------------
(* C05: codec *)

\* one cell pushed through serialize / get_resolution / deserialize / serialize
CodecOK(e) ==
  /\ IsCell(e.cell)
  /\ e.ser_ok
  /\ IsQuads(e.id)
  /\ DocLayout(e.cell, e.id)                \* documented layout (the layout IS the property)
  /\ e.res = e.cell.res                     \* get_resolution(ser(c)) = c.res
  /\ e.deser_ok /\ e.cell2 = e.cell         \* deser(ser(c)) = c
  /\ e.reser_ok /\ e.id2 = e.id             \* ser(deser(q)) = q
  /\ Canonical(e.id)

\* an ID built from the layout by the harness, pushed through deserialize / serialize
DecodeOK(e) ==
  /\ IsQuads(e.id)
  /\ Canonical(e.id) =>
       /\ e.deser_ok
       /\ e.res = ResOfCanon(e.id)
       /\ e.reser_ok /\ e.id2 = e.id
       /\ DocLayout(e.cell, e.id)

\* "every ID returned by any API call is in this canonical form" -- also when the argument was not: a decodable alias is
\* either rejected or treated as the cell it aliases, and nothing non-canonical comes back
CanonOutOK(e) ==
  /\ e.outcome \in {"ok", "err"}
  /\ \A k \in 1..Len(e.outs) : IsQuads(e.outs[k]) /\ Canonical(e.outs[k])

HexFmtOK(e) ==
  /\ IsQuads(e.id)
  /\ e.str = HexFmt(e.id)                    \* 1..16 lower-case digits, no prefix, no leading zeros
  /\ e.back_ok /\ e.back = e.id              \* parse(format(v)) = v

\* e.outcome \in {"ok", "err", "panic"}
\* the hexadecimal digits occurring in a string, in order (whatever else the string contains)
RECURSIVE DigitsOf(_, _)
DigitsOf(str, k) == IF k > Len(str) THEN <<>>
                    ELSE IF IsHexCode(str[k]) THEN <<str[k]>> \o DigitsOf(str, k + 1) ELSE DigitsOf(str, k + 1)
HexParseOK(e) ==
  /\ e.outcome # "panic"
  /\ IF IsDigitString(e.str)
       THEN LET p == HexParseDigits(e.str)
            IN IF ~p.ok THEN e.outcome = "err"           \* empty, or wider than 64 bits
               ELSE e.outcome = "ok" => e.id = p.val     \* never a truncated / different value
       ELSE \* other text: an error, or -- should a port accept prefixes/separators -- at least never a value
            \* other than the one its hexadecimal digits denote (no truncation, no mangling)
            e.outcome = "ok" => LET p == HexParseDigits(DigitsOf(e.str, 1)) IN p.ok /\ e.id = p.val
  /\ (IsDigitString(e.str) /\ HexParseDigits(e.str).ok /\ e.str = HexFmt(HexParseDigits(e.str).val))
       => e.outcome = "ok"                                \* every string format can produce must parse

---------------------------------------------------------------------------
(* C20: numeric order vs hierarchy *)

\* a block of IDs the harness sorted AS u64; must be strictly increasing as quads
RECURSIVE StrictlyIncFrom(_, _)
StrictlyIncFrom(ids, k) == k >= Len(ids) \/ (Less(ids[k], ids[k + 1]) /\ StrictlyIncFrom(ids, k + 1))
SortedBlockOK(e, last) ==
  /\ \A k \in 1..Len(e.ids) : IsQuads(e.ids[k])
  /\ StrictlyIncFrom(e.ids, 1)
  /\ (last # <<>> /\ Len(e.ids) > 0) => Less(last, e.ids[1])

\* two cells of equal resolution r >= 2 with their ancestors at 1..r as returned by the code
AncPairOK(e) ==
  /\ IsCanonRes(e.a, e.r) /\ IsCanonRes(e.b, e.r)
  /\ e.lt = Less(e.a, e.b)                    \* u64 comparison = quad comparison
  /\ Len(e.anc_a) = e.r /\ Len(e.anc_b) = e.r
  /\ e.lt => \A k \in 1..e.r : Leq(e.anc_a[k], e.anc_b[k])
  /\ \A k \in 1..e.r : IsCanonRes(e.anc_a[k], k) /\ IsCanonRes(e.anc_b[k], k)
  \* all descendants of a precede all descendants of b (extremes recorded from the code)
  /\ (e.lt /\ e.has_desc) => Less(e.max_desc_a, e.min_desc_b)

(***************************************************************************)
(* Streaming contiguity check.  The harness sorts a mixed-resolution list  *)
(* of cells (res >= 1) as u64 and reports for each its ancestors at        *)
(* 1..res as returned by cell_to_parent.  For every level k the subtree    *)
(* label  anc_k  must form contiguous runs: cur[k] is the label of the     *)
(* current run, closed[k] says an outsider (a cell coarser than k) has     *)
(* been seen since, so the run may not continue.                           *)
(***************************************************************************)
RunInit == [cur |-> [k \in 1..29 |-> <<>>], closed |-> [k \in 1..29 |-> FALSE]]

RunEntryOK(x, run) ==
  /\ IsQuads(x.id) /\ Canonical(x.id)
  /\ LET r == ResOfCanon(x.id) IN
     /\ r >= 1 /\ Len(x.anc) = r /\ x.anc[r] = x.id
     /\ \A k \in 1..r :
          \/ run.cur[k] = <<>>
          \/ (x.anc[k] = run.cur[k] /\ ~run.closed[k])
          \/ Less(run.cur[k], x.anc[k])      \* a new run: strictly larger, so never seen before

RunEntryNext(x, run) ==
  LET r == ResOfCanon(x.id)
  IN [cur |-> [k \in 1..29 |-> IF k <= r THEN x.anc[k] ELSE run.cur[k]],
      closed |-> [k \in 1..29 |-> IF k <= r THEN FALSE ELSE run.cur[k] # <<>>]]

RECURSIVE RunFold(_, _, _)
RunFold(xs, k, run) ==   \* <<ok, run'>>
  IF k > Len(xs) THEN <<TRUE, run>>
  ELSE IF ~RunEntryOK(xs[k], run) THEN <<FALSE, run>>
  ELSE RunFold(xs, k + 1, RunEntryNext(xs[k], run))

---------------------------------------------------------------------------
(* C07: one consistent tree *)

NoRepeats(list) == Cardinality({list[i] : i \in 1..Len(list)}) = Len(list)

\* cell_to_children(id, target) with the code's own parents / resolutions of every entry
ChildrenOK(e) ==
  /\ IsQuads(e.id) /\ Canonical(e.id)
  /\ LET r == ResOfCanon(e.id) IN
     /\ e.target >= r /\ e.target <= MaxRes
     /\ e.ok
     /\ Len(e.list) = NumDescInt(r, e.target)
     /\ NoRepeats(e.list)
     /\ Len(e.parents) = Len(e.list) /\ Len(e.ress) = Len(e.list)
     /\ \A i \in 1..Len(e.list) :
          /\ IsCanonRes(e.list[i], e.target)
          /\ e.ress[i] = e.target               \* get_resolution agrees
          /\ e.parents[i] = e.id                \* cell_to_parent(child, res(id)) = id
     /\ (e.dflt => e.target = r + 1)
     /\ Drift(\A i \in 1..Len(e.list) : IsDescId(e.list[i], e.id), "children: not the prefix tree")

\* a large expansion, summarised by the harness (counts of offending entries instead of the entries themselves)
ChildrenBigOK(e) ==
  /\ IsQuads(e.id) /\ Canonical(e.id) /\ e.ok
  /\ LET r == ResOfCanon(e.id) IN
     /\ r >= 2 /\ e.target > r
     /\ e.len_is_pow4 /\ e.len_exp4 = e.target - r            \* exactly 4^(target - res) children
     /\ e.wrong_res = 0 /\ e.wrong_parent = 0 /\ e.dups = 0
     /\ IsCanonRes(e.min, e.target) /\ IsCanonRes(e.max, e.target)
     /\ IsDescId(e.min, e.id) /\ IsDescId(e.max, e.id)         \* the extremes lie in the subtree (C20: one ID interval)

\* parent(parent(c, a), b) = parent(c, b)  for  res(c) >= a >= b >= -1
ParentComposeOK(e) ==
  /\ IsQuads(e.c) /\ Canonical(e.c)
  /\ e.ok_a /\ e.ok_ab /\ e.ok_b
  /\ e.pab = e.pb
  /\ IsCanonRes(e.pa, e.a) /\ IsCanonRes(e.pb, e.b)
  /\ (e.a = ResOfCanon(e.c) => e.pa = e.c)
  /\ Drift(e.pa = AncId(e.c, e.a), "parent: not the prefix tree")

\* the whole ancestor chain of a cell: e.direct[a + 2] = parent(c, a) for a = -1..res, e.step[a + 1] = parent(direct(a), a - 1)
AncestorsOK(e) ==
  /\ IsQuads(e.c) /\ Canonical(e.c) /\ e.ok
  /\ LET r == ResOfCanon(e.c) IN
     /\ Len(e.direct) = r + 2 /\ Len(e.step) = r + 1
     /\ e.direct[r + 2] = e.c /\ e.direct[1] = Zero32
     /\ \A a \in 0..r : IsCanonRes(e.direct[a + 2], a)
     /\ \A a \in 0..r : e.step[a + 1] = e.direct[a + 1]        \* parent(parent(c, a), a - 1) = parent(c, a - 1)
     /\ Drift(\A a \in 0..r : e.direct[a + 2] = AncId(e.c, a), "ancestors: not the prefix tree")

\* children(children(c, m), r2) = children(c, r2)
ChildrenComposeOK(e) ==
  /\ e.ok
  /\ {e.via[i] : i \in 1..Len(e.via)} = {e.direct[i] : i \in 1..Len(e.direct)}
  /\ Len(e.via) = Len(e.direct)

\* level enumeration: all children of all cells of level r-1, sorted as u64 by the harness
LevelBlockOK(e, last) ==
  /\ SortedBlockOK(e, last)
  /\ \A k \in 1..Len(e.ids) : IsCanonRes(e.ids[k], e.res)
LevelEndOK(e, count) ==
  LET n == NumCells(e.res) IN count = n[1] * Pow4(n[2]) /\ e.count = count

\* conventions of the world cell (resolution -1, ID 0): it is the root of the tree and has no geometry
WorldOK(e) ==
  /\ e.res0_ok /\ Len(e.res0) = 12 /\ NoRepeats(e.res0)
  /\ \A i \in 1..12 : IsCanonRes(e.res0[i], 0) /\ e.parents_of_res0[i] = Zero32       \* parent of every base cell
  /\ e.children_default = e.res0                                                      \* children(world) = base cells
  /\ e.self_children = <<Zero32>>                                                     \* children(world, -1) = world
  /\ e.world_res = -1
  /\ e.lookup_minus1 = Zero32                                                         \* lonlat_to_cell(_, -1) = world
  /\ e.centre_is_origin /\ e.boundary_len = 0                                        \* (0, 0) and an empty ring
  /\ ~e.parent_of_world_ok                                                            \* the root has no parent

---------------------------------------------------------------------------
(* C09: uncompact *)

RECURSIVE SumFan(_, _, _)
SumFan(cells, target, k) ==
  IF k > Len(cells) THEN 0
  ELSE NumDescInt(ResOfCanon(cells[k]), target) + SumFan(cells, target, k + 1)

RECURSIVE BlocksOK(_, _, _, _, _)
BlocksOK(cells, target, out, par, k) ==   \* k-th input, out/par are the remaining suffixes
  IF k > Len(cells) THEN out = <<>>
  ELSE LET n == NumDescInt(ResOfCanon(cells[k]), target)
           blk == SubSeq(out, 1, n)
       IN /\ Len(out) >= n
          /\ NoRepeats(blk)
          /\ \A i \in 1..n : IsCanonRes(out[i], target) /\ par[i] = cells[k]
          /\ BlocksOK(cells, target, SubSeq(out, n + 1, Len(out)), SubSeq(par, n + 1, Len(par)), k + 1)

UncompactOK(e) ==
  /\ \A k \in 1..Len(e.cells) : IsQuads(e.cells[k]) /\ Canonical(e.cells[k])
  /\ LET finer == \E k \in 1..Len(e.cells) : ResOfCanon(e.cells[k]) > e.target
     IN IF finer THEN e.outcome = "err" /\ e.out = <<>>
        ELSE /\ e.outcome = "ok"
             /\ Len(e.out) = SumFan(e.cells, e.target, 1)
             /\ Len(e.par) = Len(e.out)
             /\ BlocksOK(e.cells, e.target, e.out, e.par, 1)
---------------------------------------------------------------------------
(* C08 / C10: compact *)

AllCanon(ids) == \A i \in 1..Len(ids) : IsQuads(ids[i]) /\ Canonical(ids[i])
DecSet(ids) == {Decode(ids[i]).cell : i \in 1..Len(ids)}

\* C08: one input set presented in several orders / multiplicities (e.variants), the outputs of
\* compact for each (e.outs), and optionally the code's own uncompact of input and output at the
\* finest input resolution (e.exp_in, e.exp_out)
Compact8OK(e) ==
  /\ Len(e.variants) >= 1 /\ Len(e.outs) = Len(e.variants) /\ Len(e.oks) = Len(e.variants)
  /\ \A k \in 1..Len(e.variants) : AllCanon(e.variants[k]) /\ e.oks[k] /\ AllCanon(e.outs[k])
  /\ LET S == DecSet(e.variants[1])
          C == CanonSet(S)
     IN /\ \A k \in 1..Len(e.variants) : DecSet(e.variants[k]) = S
        /\ \A k \in 1..Len(e.outs) :
             /\ NoRepeats(e.outs[k])                              \* no duplicates
             /\ CanonSet(DecSet(e.outs[k])) = C                   \* same cover as the input
             /\ SeqSet(e.outs[k]) = SeqSet(e.outs[1])             \* order / multiplicity independent
  /\ e.has_expand => /\ e.exp_ok
                     /\ SeqSet(e.exp_in) = SeqSet(e.exp_out)      \* uncompact(in, R) = uncompact(out, R) as sets

\* C10: a non-overlapping input (judged by the spec), its compaction, and the compaction of that
Compact10OK(e) ==
  /\ AllCanon(e.cells) /\ e.ok /\ AllCanon(e.out)
  /\ LET S == DecSet(e.cells)
          O == DecSet(e.out)
     IN Antichain(S) =>
          /\ Maximal(O)                                           \* no complete sibling group left
          /\ O = CanonSet(S)                                      \* the canonical description of the region
          /\ e.ok2 /\ SeqSet(e.again) = SeqSet(e.out) /\ Len(e.again) = Len(e.out)   \* idempotent

\* a very large input (summarised by counts): exactly the groups left complete are merged, nothing else changes
BigCompactOK(e) ==
  /\ e.ok /\ IsQuads(e.root) /\ Canonical(e.root)
  /\ e.out_len = e.n_in - 3 * e.groups_complete        \* four children -> one parent, once per complete group
  /\ e.parents_present = e.groups_complete /\ e.leftovers = 0 /\ e.dups = 0

\* two non-overlapping inputs covering the same region compact to the same set
CompactPairOK(e) ==
  /\ AllCanon(e.a) /\ AllCanon(e.b) /\ e.ok /\ AllCanon(e.out_a) /\ AllCanon(e.out_b)
  /\ LET A == DecSet(e.a)  Bs == DecSet(e.b)
     IN (Antichain(A) /\ Antichain(Bs) /\ CanonSet(A) = CanonSet(Bs)) => SeqSet(e.out_a) = SeqSet(e.out_b)
---------------------------------------------------------------------------
(* C17 / C06: the curve inside a quintant *)

Dg(seq) == [x \in 0..(Len(seq) - 1) |-> seq[x + 1]]          \* JSON digit list (lsb first) -> position
TriRec(t) == [up |-> t[1] = 1, i |-> t[2], j |-> t[3]]
TriKey(t) == <<1 - t[1], t[2], t[3]>>                          \* the order the harness sorts by
KeyLess(a, b) == \/ a[1] < b[1]
                 \/ (a[1] = b[1] /\ a[2] < b[2])
                 \/ (a[1] = b[1] /\ a[2] = b[2] /\ a[3] < b[3])

\* property level (C17): the centre of the pentagon of position d lies strictly inside a lattice
\* triangle of the quintant, and locating it returns d
AnchorEntryOK(x, n) ==
  /\ Len(x.d) = n /\ Len(x.back) = n
  /\ InTriSet(TriRec(x.tri), n)
  /\ x.margin > 0
  /\ x.back = x.d

\* reference level (C06): the code's anchor / tile / triangle are those of the transcribed v0.6.2 walk
AnchorPinOK(x, n, o) ==
  LET a == Anchor(Dg(x.d), n, o)
      t == Tile(a)
  IN /\ a.k = x.k /\ a.fl = <<x.f0, x.f1>> /\ a.i = x.ai /\ a.j = x.aj
     /\ x.tile = <<IF t.rot THEN 1 ELSE 0, IF t.refl THEN 1 ELSE 0, t.i, t.j>>
     /\ x.resid < 1000000                                        \* congruent copy to 1e-6 lattice units
     /\ TriOf(t) = TriRec(x.tri)
     /\ ParityOK(t)
     /\ TriToS(TriRec(x.tri), n, o) = Dg(x.d)

RECURSIVE KeysIncFrom(_, _, _)
KeysIncFrom(xs, k, last) ==
  IF k > Len(xs) THEN TRUE
  ELSE (last = <<>> \/ KeyLess(last, TriKey(xs[k].tri))) /\ KeysIncFrom(xs, k + 1, TriKey(xs[k].tri))

AnchorsOK(e, lastKey) ==
  /\ e.n \in 1..29 /\ e.o \in Orientations
  /\ \A k \in 1..Len(e.entries) : AnchorEntryOK(e.entries[k], e.n)
  /\ e.sorted => KeysIncFrom(e.entries, 1, lastKey)           \* pairwise distinct triangles
AnchorsPinned(e) == \A k \in 1..Len(e.entries) : AnchorPinOK(e.entries[k], e.n, e.o)
AnchorsEndOK(e, count) == count = 4 ^ e.n /\ e.count = count  \* 4^n distinct triangles of TriSet(n): a bijection

---------------------------------------------------------------------------
(* C12: parent / child tile configurations *)

CfgTuple(c) == <<c[1] = 1, c[2] = 1, c[3] = 1, c[4] = 1, c[5], c[6]>>
RelConfigOK(e) == \A k \in 1..Len(e.entries) : CfgTuple(e.entries[k].cfg) \in Configs16 /\ e.entries[k].resid < 1000000
RelFactOK(e) == /\ CfgTuple(e.cfg) \in Configs16
                /\ e.overlap_ppm > 0              \* child shares interior area with its parent
                /\ e.dist_ppm <= 800000           \* centre within 0.8 * sqrt(parent area)
CoverFactOK(e) == e.children = 4 /\ e.cover_ppm > 500000 /\ e.sibling_overlap_ppm < 10
AllTileTypes == {<<a, b>> : a \in {0, 1}, b \in {0, 1}}

\* sphere-level fact about one parent/child pair of real cells
ChildGeomOK(e) ==
  /\ IsQuads(e.parent) /\ IsQuads(e.child) /\ Canonical(e.parent) /\ Canonical(e.child)
  /\ ResOfCanon(e.child) = ResOfCanon(e.parent) + 1
  /\ e.is_child                                 \* code: cell_to_parent(child) = parent
  /\ e.dist_ppm <= 800000
  /\ e.shares_interior

---------------------------------------------------------------------------
(* C18 / C06: quintant <-> segment relabelling *)

QuintMapOK(e) ==
  /\ Len(e.q2s) = 5 /\ Len(e.s2q) = 5
  /\ \A q \in 0..4 : LET sg == e.q2s[q + 1] IN sg[1] \in 0..4 /\ e.s2q[sg[1] + 1] = <<q, sg[2]>>
  /\ \A g \in 0..4 : LET qo == e.s2q[g + 1] IN qo[1] \in 0..4 /\ e.q2s[qo[1] + 1] = <<g, qo[2]>>
  /\ Cardinality({e.q2s[q + 1][1] : q \in 0..4}) = 5
  /\ \A q \in 0..4 : e.q2s[q + 1][2] \in Orientations
QuintMapPinOK(e) ==
  /\ e.first = FirstQ(e.face) /\ e.layout = Layout(e.face)
  /\ \A q \in 0..4 : e.q2s[q + 1] = QuintantToSegment(q, e.face) /\ e.s2q[q + 1] = SegmentToQuintant(q, e.face)
  /\ e.first = FirstQuintant[e.face + 1]       \* the ID layout uses the same table
---------------------------------------------------------------------------
(* C14: total API.  Demand = what the property requires of a call on a class of arguments;      *)
(* CallOK judges one recorded call (outcome and payload) executed in a child process.           *)

InRange(r) == r >= -1 /\ r <= MaxRes
IdStatus(q) == IF ~Decode(q).ok THEN "invalid" ELSE IF Canonical(q) THEN "canonical" ELSE "alias"
ByStatus(q) == CASE IdStatus(q) = "invalid" -> "err"       \* not a cell and aliases none: must be rejected
                 [] IdStatus(q) = "canonical" -> "ok"
                 [] OTHER -> "either"                        \* rejected, or treated as the canonical cell it aliases
ResOf(q) == Decode(q).cell.res
Worst(a, b) == IF a = "err" \/ b = "err" THEN "err" ELSE IF a = "either" \/ b = "either" THEN "either" ELSE "ok"
RECURSIVE WorstAll(_, _)
WorstAll(ids, k) == IF k > Len(ids) THEN "ok" ELSE Worst(ByStatus(ids[k]), WorstAll(ids, k + 1))

Demand(fn, ids, r, dflt, coordOK) ==
  LET q == IF Len(ids) >= 1 THEN ids[1] ELSE Zero32 IN
  CASE fn \in {"get_resolution", "cell_area", "get_num_cells", "get_res0_cells", "u64_to_hex"} -> "ok"
    [] fn \in {"cell_to_lonlat", "cell_to_boundary"} -> ByStatus(q)
    [] fn = "cell_to_parent" ->
         IF IdStatus(q) = "invalid" THEN "err"
         ELSE LET t == IF dflt THEN ResOf(q) - 1 ELSE r
              IN IF t < -1 \/ t > ResOf(q) THEN "err" ELSE ByStatus(q)
    [] fn = "cell_to_children" ->
         IF IdStatus(q) = "invalid" THEN "err"
         ELSE LET t == IF dflt THEN ResOf(q) + 1 ELSE r
              IN IF t < ResOf(q) \/ t > MaxRes THEN "err" ELSE ByStatus(q)
    [] fn = "lonlat_to_cell" -> IF ~InRange(r) THEN "err" ELSE IF coordOK THEN "ok" ELSE "either"
    [] fn = "uncompact" ->
         IF ~InRange(r) THEN "err"
         ELSE IF \E k \in 1..Len(ids) : IdStatus(ids[k]) # "invalid" /\ ResOf(ids[k]) > r THEN "err"
         ELSE WorstAll(ids, 1)
    [] fn = "compact" -> "either"
    [] OTHER -> "either"

\* payload of a successful call
PayloadOK(e) ==
  LET q == IF Len(e.ids) >= 1 THEN e.ids[1] ELSE Zero32
      alias == Len(e.ids) >= 1 /\ IdStatus(q) = "alias"
  IN CASE e.fn = "get_resolution" -> e.int \in -1..MaxRes
       [] e.fn = "cell_to_parent" ->
            LET t == IF e.dflt THEN ResOf(q) - 1 ELSE e.r
            IN /\ Len(e.out) = 1 /\ IsCanonRes(e.out[1], t)
               /\ (alias /\ e.canon_ok) => e.out = e.canon_out
               /\ Drift(IsDescId(Canon(q), e.out[1]), "parent of alias not on the prefix tree")
       [] e.fn = "cell_to_children" ->
            LET t == IF e.dflt THEN ResOf(q) + 1 ELSE e.r
            IN /\ \A i \in 1..Len(e.out) : IsCanonRes(e.out[i], t)
               /\ Len(e.out) = NumDescInt(ResOf(q), t) /\ NoRepeats(e.out)
               /\ (alias /\ e.canon_ok) => e.out = e.canon_out
       [] e.fn = "get_res0_cells" -> Len(e.out) = 12 /\ NoRepeats(e.out) /\ \A i \in 1..12 : IsCanonRes(e.out[i], 0)
       [] e.fn = "lonlat_to_cell" -> Len(e.out) = 1 /\ IsCanonRes(e.out[1], e.r)
       [] e.fn \in {"cell_to_lonlat", "cell_to_boundary"} ->
            /\ e.finite /\ e.lat_in_range
            /\ (alias /\ e.canon_ok) => e.same_as_canon
       [] e.fn = "uncompact" -> \A i \in 1..Len(e.out) : IsCanonRes(e.out[i], e.r)
       [] e.fn = "compact" ->
            \A i \in 1..Len(e.out) : Canonical(e.out[i])     \* (before the repair of compact: or an input passed through)
       [] e.fn \in {"cell_area", "get_num_cells"} -> e.finite
       [] e.fn = "u64_to_hex" -> TRUE                    \* the string itself is judged by HexFmtOK (C05)
       [] OTHER -> FALSE                                 \* an API function this relation does not know

CallOK(e) ==
  /\ e.outcome \in {"ok", "err"}                        \* never panic / abort / oom / timeout
  /\ LET d == Demand(e.fn, e.ids, e.r, e.dflt, e.coord_ok)
     IN /\ (d = "ok" => e.outcome = "ok")
        /\ (d = "err" => e.outcome = "err")
  /\ e.outcome = "ok" => PayloadOK(e)
---------------------------------------------------------------------------
(* C13: purity across cache states, histories and threads *)

CS == INSTANCE A5CacheSlots WITH ReflOffset <- 10, SquashOffset <- 20, SphReflOffset <- 120
KeyRec(k) == [origin |-> k[1], idx |-> k[2], refl |-> k[3] = 1]
SetOfSeq(s) == {s[i] : i \in 1..Len(s)}

\* call A then call B on a fresh projection instance: B must equal B on a cold instance, bit for bit
PairOK(e) ==
  /\ e.a_ok
  /\ e.b_after_a = e.b_cold
  /\ Drift(LET ka == KeyRec(e.a)  kb == KeyRec(e.b)
               ta == CS!Touched(ka, TRUE)
               tb == CS!Touched(kb, CS!SphSlot(kb.origin, kb.idx, kb.refl) \notin ta.sph)
           IN /\ SetOfSeq(e.face_mid) = ta.face /\ SetOfSeq(e.sph_mid) = ta.sph
              /\ SetOfSeq(e.face_end) = ta.face \cup tb.face /\ SetOfSeq(e.sph_end) = ta.sph \cup tb.sph,
           "memo slots filled differ from the A5Cache model")

\* one call of a history replayed on real threads; th = what is known about the calling thread so far
\* (<<>> if this is its first call), others = instance addresses of the other live threads
ProjStepOK(e, th, others) ==
  /\ e.result = e.cold                                        \* same answer as a cold instance
  /\ e.instance = e.instance_after
  /\ e.instance \notin others                                 \* every thread has its own instance
  /\ th # <<>> => /\ th.inst = e.instance
                  /\ th.face = SetOfSeq(e.face_before)         \* nobody else touched this thread's cache
                  /\ th.sph = SetOfSeq(e.sph_before)
  /\ th = <<>> => e.face_before = <<>> /\ e.sph_before = <<>>  \* a fresh thread starts cold
  /\ Drift(LET k == KeyRec(e.key)
               tch == CS!Touched(k, CS!SphSlot(k.origin, k.idx, k.refl) \notin SetOfSeq(e.sph_before))
           IN /\ SetOfSeq(e.face_after) = SetOfSeq(e.face_before) \cup tch.face
              /\ SetOfSeq(e.sph_after) = SetOfSeq(e.sph_before) \cup tch.sph,
           "memo slots filled differ from the A5Cache model")

PurityOK(e) == Len(e.results) >= 1 /\ \A i \in 1..Len(e.results) : e.results[i] = e.results[1]
InstancesOK(e) == NoRepeats(e.addresses)
---------------------------------------------------------------------------
(* C01 / C02: lookup <-> geometry.  e.class is the harness's classification of the query point  *)
(* against the answering cell: "deep" | "in" | "band" | "out" (beyond the 1e-12 rad band by the  *)
(* fine planar measure, or beyond the measured sagitta allowance by the independent ring oracle) *)

LookupOK(e) == e.ok /\ IsQuads(e.id) /\ IsCanonRes(e.id, e.res) /\ e.class \in {"deep", "in", "band"}
\* a point next to an edge/vertex of cell e.id: whoever answers must contain it (C01)
\* the search loop, step by step (spec/A5LookupSteps.tla): the recorded samples folded through Step must end in the
\* recorded answer, branch, winning sample and number of distinct estimates
LookupStepsOK(e) ==
  IF e.branch = 1 THEN e.ok /\ Len(e.steps) = 0 /\ e.res < 2
  ELSE LET steps == [i \in 1..Len(e.steps) |-> [id |-> e.cells[e.steps[i].c], dup |-> e.steps[i].dup,
                                                 pos |-> e.steps[i].pos, rank |-> e.steps[i].rank]]
           o == Outcome(steps)
       IN /\ e.ok /\ e.res >= 2 /\ IsQuads(e.answer_id)
          /\ \A i \in 1..Len(e.cells) : IsCanonRes(e.cells[i], e.res)
          /\ NoRepeats(e.cells)
          /\ \A i \in 1..Len(e.steps) : e.steps[i].c \in 1..Len(e.cells) /\ (e.steps[i].tested <=> ~e.steps[i].dup)
          /\ ~o.bad /\ o.result = e.answer_id /\ o.branch = e.branch /\ o.sample = e.sample /\ Len(o.seen) = e.estimates

Interior1OK(e) == e.ok /\ IsQuads(e.back) /\ IsCanonRes(e.back, e.res) /\ e.back_class \in {"deep", "in", "band"}
\* the centre of a cell maps back to the cell; so does every point inside by more than the tolerance (C02)
CentreOK(e) == e.ok /\ e.back = e.id
\* "deep": inside by more than the tolerance for both oracles; ring_deep: inside the REPORTED boundary polygon by more than
\* the tolerance, which is what the property is stated on (the planar oracle does not see a wrong face -> sphere map)
Interior2OK(e) == (e.class = "deep" \/ e.ring_deep) => (e.ok /\ e.back = e.id)

---------------------------------------------------------------------------
(* C03: partition *)

\* strictly inside at most one of the candidate cells around the point
OwnersOK(e) ==
  /\ Len(e.classes) = Len(e.cands) /\ NoRepeats(e.cands)
  /\ \A i \in 1..Len(e.cands) : IsCanonRes(e.cands[i], e.res)
  /\ Cardinality({i \in 1..Len(e.classes) : e.classes[i] = "deep"}) <= 1

\* local closure at any resolution: each side of the cell is shared end point for end point with the cell across it
LocalMeshOK(e) ==
  /\ IsCanonRes(e.id, e.res)
  /\ e.sides = (IF e.res = 1 THEN 3 ELSE 5) /\ Len(e.twinned) = e.sides /\ Len(e.nbrs) = e.sides
  /\ \A i \in 1..e.sides : e.twinned[i] /\ IsCanonRes(e.nbrs[i], e.res) /\ e.nbrs[i] # e.id
  /\ Len(e.inward) = e.sides /\ \A i \in 1..e.sides : e.inward[i]   \* just inside each edge the cell itself answers

\* a batch of cells (vertex ids snapped by the harness, counter-clockwise) added to the growing surface
MeshCellsResult(e, mesh) == AddCells(e.cells, 1, mesh)
MeshCellsShapeOK(e) == \A k \in 1..Len(e.cells) : IsCanonRes(e.cells[k].id, e.res)
MeshEndOK(e, mesh) ==
  LET n == NumCells(e.res) IN
  /\ mesh.faces = n[1] * Pow4(n[2])                    \* every cell of the resolution was added
  /\ Closed(mesh)                                      \* every edge twinned once, V - E + F = 2
  /\ Cardinality(Verts(mesh)) = e.nverts
  /\ mesh.devsum <= 30 * mesh.faces /\ -mesh.devsum <= 30 * mesh.faces   \* total area = 4 pi (to 30 ppm: chord deficit of the 64-segment rings at res 0-1)

---------------------------------------------------------------------------
(* C04: equal area *)
AreaTolPpm(res) == 100
AreaOK(e) == IsCanonRes(e.id, e.res) /\ e.dev_ppm <= AreaTolPpm(e.res) /\ -e.dev_ppm <= AreaTolPpm(e.res)
AreaMetaOK(e) ==
  /\ e.ratio_dev_ppb <= 1 /\ e.ratio_dev_ppb >= -1          \* cell_area(r) * cells(r) = authalic area of the Earth
  /\ e.count_exact => e.count_mant = (IF e.res = 0 THEN 12 ELSE 60)   \* get_num_cells(r) = 60 * 4^(r-1)

---------------------------------------------------------------------------
(* C11: boundary ring *)
RingVerts(res) == IF res = 1 THEN 3 ELSE 5
DefaultSegs(res) == IF res >= 6 THEN 1 ELSE 2 ^ (6 - res)
BoundaryOK(e) ==
  /\ e.ok /\ IsCanonRes(e.id, e.res)
  /\ LET n == IF e.dflt THEN DefaultSegs(e.res) ELSE e.n
     IN e.len = RingVerts(e.res) * n + (IF e.closed THEN 1 ELSE 0)
  /\ (e.closed => e.first_eq_last)
  /\ e.finite /\ e.lat_ok
  /\ e.ccw /\ e.centre_inside
  /\ (~e.touches_pole => e.window_ok)
  /\ e.corner_dev_e12 <= 1000
\* normalize_longitudes on a synthetic ring given in whole degrees (inputs may carry multiples of 360):
\* the output is the input unwrapped around SOME reference meridian, in one piece
UnwrapOK(e) ==
  /\ Len(e.outs) = Len(e.lons)
  /\ \E c \in -180..179 : \A i \in 1..Len(e.lons) : e.outs[i] = Unwrap(e.lons[i], c)
  /\ \A i \in 1..Len(e.outs) : \A j \in 1..Len(e.outs) : e.outs[i] - e.outs[j] < 180

---------------------------------------------------------------------------
(* C18: the 12-face frame *)

FaceCentreOK(e) ==
  LET raw == OriginOrder0[e.face + 1] IN
  /\ e.lat_dev_e12 <= 1000 /\ e.lon_dev_e12 <= 1000          \* 1e-9 degrees
  /\ e.lat_class = (IF raw = 0 THEN "north" ELSE IF raw = 11 THEN "south" ELSE IF raw % 2 = 1 THEN "upper" ELSE "lower")
  \* ring faces sit at azimuth (longitude + 93 degrees) = 72*i, resp. 72*i + 36
  /\ (raw \in 1..10 => e.lon_index = (IF raw % 2 = 1 THEN 2 * ((raw - 1) \div 2) ELSE 2 * ((raw - 2) \div 2) + 1))
FaceAngleOK(e) ==
  /\ e.dev_e12 <= 1000
  /\ e.class = (IF Adjacent(e.f, e.g) THEN "adjacent" ELSE IF Antipode(e.f) = e.g THEN "antipodal" ELSE "far")
NearestOK(e) ==
  \A i \in 1..Len(e.pts) :
    LET x == e.pts[i] IN
      \/ x.chosen = x.best
      \/ (x.margin_e12 <= 1000 /\ x.chosen = x.second /\ Adjacent(x.best, x.second))    \* tie on a seam
FrameCellsShapeOK(e) == \A k \in 1..Len(e.cells) : Len(e.cells[k].verts) = 3 /\ e.cells[k].dev_ppm \in -1..1
FrameEndOK(e, mesh) ==
  /\ mesh.faces = 120 /\ e.ntris = 120 /\ Closed(mesh)
  /\ Cardinality(Verts(mesh)) = 62 /\ e.nverts = 62 /\ Cardinality(mesh.edges) = 360
ReflectedOK(e) == e.match_face \in 0..11 /\ Adjacent(e.origin, e.match_face) /\ e.dev_ppm \in -1..1

\* which quintant / memo triangle / reflected region a face-plane direction belongs to (angle in half-units)
SectorOK(e) ==
  /\ e.quintant = QuintantOfAngle(e.g)
  /\ e.idx = FaceTriangleIndex(e.g)
  /\ e.refl = e.beyond                                  \* reflected triangle iff the point lies beyond the face edge
  /\ e.quintant = QuintantOfTriangle(e.idx)

---------------------------------------------------------------------------
(* C06: frozen golden trace of the reference release *)
GoldenGeomOK(e) == e.ok /\ e.dev_e12 <= 1000            \* centre and corners within 1e-9 degrees
GoldenLookupOK(e) == e.ok /\ e.now = e.ref
=============================================================================
