----------------------------- MODULE A5Origins -----------------------------
(***************************************************************************)
(* The twelve faces (origins): curve orientation per quintant, the         *)
(* quintant <-> segment relabelling, and the face adjacency graph of the   *)
(* dodecahedron in A5 numbering.  Transcribed from src/core/origin.rs.     *)
(***************************************************************************)
EXTENDS Naturals, Integers, Sequences, FiniteSets

ClockwiseFan  == <<"VU", "UW", "VW", "VW", "VW">>
ClockwiseStep == <<"WU", "UW", "VW", "VU", "UW">>
CounterStep   == <<"WU", "UV", "WV", "WU", "UW">>
CounterJump   == <<"VU", "UV", "WV", "WU", "UW">>

\* indexed by construction order (before ORIGIN_ORDER renumbers the faces)
LayoutRaw == <<ClockwiseFan, CounterJump, CounterStep, ClockwiseStep, CounterStep, CounterJump,
               CounterStep, ClockwiseStep, ClockwiseStep, ClockwiseStep, CounterJump, CounterJump>>
QuintantFirstRaw0 == <<4, 2, 3, 2, 0, 4, 3, 2, 2, 0, 3, 0>>
OriginOrder0 == <<0, 1, 2, 4, 3, 5, 7, 8, 6, 11, 10, 9>>

Layout(f) == LayoutRaw[OriginOrder0[f + 1] + 1]              \* face f in 0..11
FirstQ(f) == QuintantFirstRaw0[OriginOrder0[f + 1] + 1]
IsClockwise(f) == Layout(f) = ClockwiseFan \/ Layout(f) = ClockwiseStep
Step(f) == IF IsClockwise(f) THEN -1 ELSE 1

\* quintant_to_segment: << segment, orientation >>
QuintantToSegment(q, f) ==
  LET delta == (q + 5 - FirstQ(f)) % 5
      rel == ((Step(f) * delta) + 5) % 5
  IN <<(FirstQ(f) + rel) % 5, Layout(f)[rel + 1]>>

\* segment_to_quintant: << quintant, orientation >>
SegmentToQuintant(g, f) ==
  LET rel == (g + 5 - FirstQ(f)) % 5
      quint == (FirstQ(f) + ((Step(f) * rel) % 5) + 5) % 5
  IN <<quint, Layout(f)[rel + 1]>>

---------------------------------------------------------------------------
\* Face graph.  Construction order: 0 = north pole; ring faces 1,3,5,7,9 at colatitude 63.4 deg and
\* azimuth 72 deg * i; ring faces 2,4,6,8,10 at colatitude 116.6 deg and azimuth 72 deg * i + 36 deg;
\* 11 = south pole.  NewId(raw) inverts ORIGIN_ORDER.
NewId(raw) == CHOOSE f \in 0..11 : OriginOrder0[f + 1] = raw
UpperRing == <<1, 3, 5, 7, 9>>     \* raw ids, azimuth index 0..4
LowerRing == <<2, 4, 6, 8, 10>>
RawAdj(a, b) ==
  \/ (a = 0 /\ \E i \in 1..5 : UpperRing[i] = b)
  \/ (a = 11 /\ \E i \in 1..5 : LowerRing[i] = b)
  \/ \E i \in 1..5 : /\ UpperRing[i] = a
                     /\ \/ b = UpperRing[(i % 5) + 1] \/ b = UpperRing[((i + 3) % 5) + 1]
                        \/ b = LowerRing[i] \/ b = LowerRing[((i + 3) % 5) + 1]
  \/ \E i \in 1..5 : /\ LowerRing[i] = a
                     /\ \/ b = LowerRing[(i % 5) + 1] \/ b = LowerRing[((i + 3) % 5) + 1]
RawAdjacent(a, b) == RawAdj(a, b) \/ RawAdj(b, a)
Adjacent(f, g) == RawAdjacent(OriginOrder0[f + 1], OriginOrder0[g + 1])
RawAntipode(a) == IF a = 0 THEN 11 ELSE IF a = 11 THEN 0
                  ELSE IF a % 2 = 1 THEN LowerRing[((((a - 1) \div 2) + 2) % 5) + 1]    \* upper i  <-> lower i+2 (azimuth +180)
                  ELSE UpperRing[((((a - 2) \div 2) + 3) % 5) + 1]
Antipode(f) == NewId(RawAntipode(OriginOrder0[f + 1]))
---------------------------------------------------------------------------
(* Angular sectors of a face, as integer arithmetic.  Angles are measured in half-units h, where    *)
(* 16 h = pi/5 (one face triangle), 32 h = one quintant, 160 h = a full turn; recorded angles are   *)
(* odd multiples of h, so they never sit on a sector boundary.                                      *)
(*   get_face_triangle_index: floor(gamma / (pi/5)) mod 10                                          *)
(*   get_quintant_polar:      round(gamma / (2 pi/5)) mod 5                                         *)
(*   get_base_face_triangle:  quintant of triangle idx = ceil(idx / 2) mod 5                        *)
TurnH == 160
NormH(g) == ((g % TurnH) + TurnH) % TurnH
FaceTriangleIndex(g) == NormH(g) \div 16
QuintantOfAngle(g) == ((NormH(g) + 16) \div 32) % 5
QuintantOfTriangle(idx) == ((idx + 1) \div 2) % 5
=============================================================================
