------------------------------ MODULE MC_Mesh ------------------------------
(***************************************************************************)
(* The mesh machinery exercised on the dodecahedron itself (faces and      *)
(* adjacency from A5Origins): faces are added in every possible order;     *)
(* a face can never be added twice, a face with reversed orientation is    *)
(* rejected as soon as a neighbour is present, partial surfaces are never  *)
(* closed, the complete one always is.                                     *)
(***************************************************************************)
EXTENDS A5Mesh, A5Origins, TLC

CONSTANT AllOrders
VARIABLES mesh, added
vars == <<mesh, added>>

\* a vertex of the dodecahedron = the set of the three mutually adjacent faces meeting there
NbrsOf == [f \in 0..11 |-> {g \in 0..11 : Adjacent(f, g)}]
Nbrs(f) == NbrsOf[f]
\* the five neighbours of f in cyclic order (consecutive ones are adjacent); orientation fixed by a global rule
CyclesOf == [f \in 0..11 |-> {c \in [1..5 -> Nbrs(f)] : /\ \A i \in 1..5 : \A j \in 1..5 : i # j => c[i] # c[j]
                                       /\ \A i \in 1..5 : c[(i % 5) + 1] \in NbrsOf[c[i]]}]
Cycles(f) == CyclesOf[f]
FaceVerts(f, c) == [i \in 1..5 |-> {f, c[i], c[(i % 5) + 1]}]

Init == mesh = MeshInit /\ added = {}
\* add a face with a cycle whose orientation is consistent with what is already there
Eligible == IF AllOrders \/ added = {} THEN (0..11) \ added
            ELSE LET cand == {f \in (0..11) \ added : added \cap NbrsOf[f] # {}}
                 IN {f \in cand : \A g \in cand : f <= g \/ f <= g + 3}      \* a few orders, not all 12!
Add == \E f \in Eligible : \E c \in Cycles(f) :
          /\ CellOK(FaceVerts(f, c), mesh)
          /\ mesh' = AddCell(FaceVerts(f, c), 0, mesh)
          /\ added' = added \cup {f}
Next == Add
Spec == Init /\ [][Next]_vars

NeverTwice == \A f \in added : \A c \in Cycles(f) :
                CellEdges(FaceVerts(f, c)) \cap mesh.edges # {} => ~CellOK(FaceVerts(f, c), mesh)
\* an inconsistently oriented neighbour is rejected: whatever fits shares no directed edge and twins at least one
Consistent == \A f \in (0..11) \ added : \A c \in Cycles(f) :
                (CellOK(FaceVerts(f, c), mesh) /\ added \cap NbrsOf[f] # {}) =>
                   \E e \in CellEdges(FaceVerts(f, c)) : <<e[2], e[1]>> \in mesh.edges
ClosedIffComplete == Closed(mesh) <=> (added = 0..11)
CountsOK == mesh.faces = Cardinality(added) /\ Cardinality(mesh.edges) = 5 * mesh.faces
FinalCounts == added = 0..11 => Cardinality(Verts(mesh)) = 20 /\ Cardinality(mesh.edges) = 60
\* consistently oriented growth never gets stuck: some orientation of every missing face fits
NoDeadEnd == added # (0..11) /\ added # {} =>
               \A f \in (0..11) \ added : Cardinality({c \in Cycles(f) : CellOK(FaceVerts(f, c), mesh)}) \in {0, 5, 10}
=============================================================================
