------------------------------ MODULE MC_Ids ------------------------------
(***************************************************************************)
(* Model-checking instance for the ID algebra (C05, with the hex form).    *)
(* TLC enumerates every cell description up to MaxExh, structured digit    *)
(* patterns up to resolution 29, single-quad corruptions of IDs and all    *)
(* short strings over an abstract alphabet, and checks the codec laws in   *)
(* every state.  Pattern cells, corrupted IDs and strings are dumped as    *)
(* REPLAY lines for the conformance harness.                               *)
(***************************************************************************)
EXTENDS A5Tree, TLC, Json

CONSTANTS MaxExh, StrLen

VARIABLES phase, c, q, str
vars == <<phase, c, q, str>>

Digits(h) == [1..h -> Quad]
CellsAt(res) ==
  IF res = -1 THEN {World}
  ELSE IF res = 0 THEN {[res |-> 0, face |-> f, seg |-> 0, s |-> <<>>] : f \in 0..11}
  ELSE {[res |-> res, face |-> f, seg |-> g, s |-> d] : f \in 0..11, g \in 0..4, d \in Digits(H(res))}

Patterns(h) ==
  {AllDigit(h, d) : d \in Quad}
  \cup {Alternating(h, a, b) : a \in Quad, b \in Quad}
  \cup {SingleDigit(h, p, d) : p \in 1..h, d \in 1..3}
PatternCells(res) ==
  {[res |-> res, face |-> f, seg |-> g, s |-> d] : f \in {0, 3, 7, 11}, g \in {0, 2, 4}, d \in Patterns(H(res))}

\* abstract alphabet: 0 1 9 a f A F g + - x space non-ASCII
Alphabet == {48, 49, 57, 97, 102, 65, 70, 103, 43, 45, 120, 32, 255}
Strings == UNION {[1..n -> Alphabet] : n \in 0..StrLen}

Init == phase = "start" /\ c = World /\ q = Zero32 /\ str = <<>>

PickRes == /\ phase = "start"
           /\ \E r \in -1..MaxRes : phase' = "res" /\ c' = [World EXCEPT !.res = r] /\ UNCHANGED <<q, str>>
PickCell == /\ phase = "res"
            /\ \E x \in (IF c.res <= MaxExh THEN CellsAt(c.res) ELSE PatternCells(c.res)) :
                 c' = x /\ q' = Encode(x) /\ phase' = "cell" /\ UNCHANGED str
Corrupt == /\ phase = "cell"
           /\ \/ c.res <= 1
              \/ (c.face = 7 /\ c.seg = 2 /\ c.s \in {AllDigit(H(c.res), 0), AllDigit(H(c.res), 3)})
           /\ \E k \in 1..W, v \in Quad :
                v # q[k] /\ q' = SetQuad(q, k, v) /\ phase' = "id" /\ UNCHANGED <<c, str>>
PickStr == /\ phase = "start"
           /\ \E s \in Strings : str' = s /\ phase' = "str" /\ UNCHANGED <<c, q>>
Next == PickRes \/ PickCell \/ Corrupt \/ PickStr
Spec == Init /\ [][Next]_vars

---------------------------------------------------------------------------
RoundTrip ==
  phase = "cell" =>
    /\ IsCell(c)
    /\ Decode(q) = [ok |-> TRUE, cell |-> c]
    /\ ScanResolution(q) = c.res
    /\ DocLayout(c, q)
    /\ Canonical(q)
    /\ IsQuads(q)

\* the documented layout determines the ID: no single-quad variation of it satisfies the layout
LayoutUnique ==
  phase = "id" => ~DocLayout(c, q)

\* a corrupted ID either fails to decode, or aliases a canonical ID different from itself,
\* or is itself the canonical ID of another cell
AliasSound ==
  phase = "id" =>
    LET d == Decode(q) IN
      d.ok => /\ IsCell(d.cell)
              /\ Canonical(Canon(q))
              /\ (Canonical(q) <=> Canon(q) = q)
              /\ (Canonical(q) => d.cell # c)

HexRoundTrip ==
  phase \in {"cell", "id"} =>
    LET s == HexFmt(q) IN
      /\ Len(s) \in 1..16
      /\ \A j \in 1..Len(s) : s[j] \in (48..57) \cup (97..102)
      /\ (Len(s) > 1 => s[1] # 48)
      /\ IsDigitString(s)
      /\ HexParseDigits(s) = [ok |-> TRUE, val |-> q]

HexParseTotal ==
  phase = "str" =>
    IF IsDigitString(str)
      THEN LET p == HexParseDigits(str) IN
             /\ (Len(str) = 0 => ~p.ok)
             /\ (p.ok => HexParseDigits(HexFmt(p.val)) = p)
      ELSE TRUE

\* Encode is injective on everything enumerated exhaustively
Injective ==
  phase = "res" /\ c.res <= MaxExh =>
    Cardinality({Encode(x) : x \in CellsAt(c.res)}) = Cardinality(CellsAt(c.res))

Dump ==
  /\ (phase = "cell" /\ c.res > MaxExh) => PrintT("REPLAY " \o ToJson([kind |-> "cell", cell |-> c]))
  /\ (phase = "id" /\ q[32] # 3) => PrintT("REPLAY " \o ToJson([kind |-> "id", id |-> q]))
  /\ phase = "str" => PrintT("REPLAY " \o ToJson([kind |-> "str", codes |-> str]))
=============================================================================
