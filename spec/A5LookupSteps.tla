--------------------------- MODULE A5LookupSteps ---------------------------
(***************************************************************************)
(* The search loop of lonlat_to_cell (src/core/cell.rs) at the grain of    *)
(* its own steps, written to be bound to the step log of the verif hook:   *)
(*                                                                         *)
(*   for each of the 26 samples (query point, then 25 probes), in order:   *)
(*     Estimate : the sample yields a cell (the estimate);                 *)
(*                if that cell was seen before in this call -> nothing     *)
(*     Test     : otherwise it is remembered and tested for containment of *)
(*                the QUERY point; a positive value ends the call with     *)
(*                that cell (branch 2 = sample 0, branch 3 = a probe)      *)
(*   Fallback : after 26 samples without a hit the tested cell with the    *)
(*              greatest containment value is returned, the earliest one   *)
(*              among equals (stable descending sort) (branch 4)           *)
(*                                                                         *)
(* A5Lookup is the abstract version (which cell a sample yields is         *)
(* nondeterministic, containment is "is the true cell").  Here a step      *)
(* carries what the code computed, so that a recorded call can be folded   *)
(* through LStep and must end in the recorded answer.  Containment values    *)
(* travel as  pos (value > 0)  and  rank (position in the stable           *)
(* descending order of the values of this call), because TLC has no reals. *)
(***************************************************************************)
EXTENDS Naturals, Sequences, FiniteSets

NSamplesReal == 26
NoneId == <<>>

\* a step as logged:  [id, dup, pos, rank]   (dup: the code treated the estimate as seen before)
\* search state
S0 == [k |-> 0, seen |-> <<>>, tested |-> <<>>, result |-> NoneId, branch |-> 0, sample |-> 255, bad |-> FALSE]

InSeq(s, x) == \E i \in 1..Len(s) : s[i] = x

StepN(st, ev, ns) ==
  IF st.result # NoneId \/ st.k >= ns
    THEN [st EXCEPT !.bad = TRUE]                                  \* the loop had ended: no further sample may be taken
  ELSE IF InSeq(st.seen, ev.id)
    THEN [st EXCEPT !.k = @ + 1, !.bad = @ \/ ~ev.dup]             \* seen before: must be skipped, not tested again
  ELSE IF ev.dup
    THEN [st EXCEPT !.k = @ + 1, !.bad = TRUE]                     \* a new estimate must be tested
  ELSE LET st1 == [st EXCEPT !.k = @ + 1, !.seen = Append(@, ev.id)]
       IN IF ev.pos
            THEN [st1 EXCEPT !.result = ev.id, !.branch = IF st.k = 0 THEN 2 ELSE 3, !.sample = st.k]
            ELSE [st1 EXCEPT !.tested = Append(@, [id |-> ev.id, rank |-> ev.rank])]

LStep(st, ev) == StepN(st, ev, NSamplesReal)
RECURSIVE LFold(_, _, _)
LFold(steps, i, st) == IF i > Len(steps) THEN st ELSE LFold(steps, i + 1, LStep(st, steps[i]))

\* ranks of the tested (non-containing) cells form a permutation of 0 .. n-1
RanksOK(tested) ==
  /\ \A i \in 1..Len(tested) : tested[i].rank \in 0..(Len(tested) - 1)
  /\ \A i, j \in 1..Len(tested) : i # j => tested[i].rank # tested[j].rank

FinishN(st, ns) ==
  IF st.result # NoneId THEN st
  ELSE IF st.k = ns /\ Len(st.tested) >= 1 /\ RanksOK(st.tested)
    THEN LET w == CHOOSE i \in 1..Len(st.tested) : st.tested[i].rank = 0
         IN [st EXCEPT !.result = st.tested[w].id, !.branch = 4]
  ELSE [st EXCEPT !.bad = TRUE]                                    \* stopped early without a hit, or nothing tested

LFinish(st) == FinishN(st, NSamplesReal)
Outcome(steps) == LFinish(LFold(steps, 1, S0))
=============================================================================
