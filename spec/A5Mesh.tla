------------------------------- MODULE A5Mesh -------------------------------
(***************************************************************************)
(* A closed, consistently oriented polygonal surface grown cell by cell    *)
(* (half-edge view).  A cell is a cyclic sequence of vertex ids listed     *)
(* counter-clockwise.  AddCell is enabled only if none of the cell's       *)
(* directed edges is already present: two cells on the same side of an     *)
(* edge would overlap.  A finished mesh is closed when every directed edge *)
(* has its twin and V - E + F = 2; together with total area 4 pi it covers *)
(* the sphere exactly once (no overlap, no gap).                           *)
(***************************************************************************)
EXTENDS Naturals, Integers, Sequences, FiniteSets

MeshInit == [edges |-> {}, faces |-> 0, devsum |-> 0]

CellEdges(verts) == {<<verts[i], verts[(i % Len(verts)) + 1]>> : i \in 1..Len(verts)}
CellOK(verts, mesh) ==
  /\ Len(verts) >= 3
  /\ Cardinality({verts[i] : i \in 1..Len(verts)}) = Len(verts)        \* a simple cycle
  /\ CellEdges(verts) \cap mesh.edges = {}                             \* nobody already sits on this side of an edge
AddCell(verts, dev, mesh) ==
  [edges |-> mesh.edges \cup CellEdges(verts), faces |-> mesh.faces + 1, devsum |-> mesh.devsum + dev]

RECURSIVE AddCells(_, _, _)
AddCells(cells, k, mesh) ==          \* << ok, mesh' >> ; cells[k] = [verts, dev_ppm]
  IF k > Len(cells) THEN <<TRUE, mesh>>
  ELSE IF ~CellOK(cells[k].verts, mesh) THEN <<FALSE, mesh>>
  ELSE AddCells(cells, k + 1, AddCell(cells[k].verts, cells[k].dev_ppm, mesh))

Verts(mesh) == {e[1] : e \in mesh.edges}
Twinned(mesh) == \A e \in mesh.edges : <<e[2], e[1]>> \in mesh.edges
Euler(mesh) == Cardinality(Verts(mesh)) - (Cardinality(mesh.edges) \div 2) + mesh.faces
Closed(mesh) == Twinned(mesh) /\ Euler(mesh) = 2
=============================================================================
