------------------------------ MODULE A5Lookup ------------------------------
(***************************************************************************)
(* The search inside lonlat_to_cell (src/core/cell.rs) as a state machine: *)
(* the query point and 25 probe points each yield an estimate (a cell near *)
(* the point); estimates are de-duplicated; the first estimate whose       *)
(* pentagon contains the query point wins; if none does, the estimate      *)
(* nearest to containing it is returned (fallback).                        *)
(* Abstraction: the neighbourhood is the true cell T, some neighbours and  *)
(* a far cell; which estimate a sample yields is nondeterministic.  The    *)
(* model makes explicit the single assumption C01 rests on: the true cell  *)
(* must be among the estimates (probe coverage).                           *)
(***************************************************************************)
EXTENDS Naturals, Sequences, FiniteSets, TLC

CONSTANTS Cells, T, NSamples          \* T \in Cells is the cell that contains the point

VARIABLES k, seen, result, branch     \* next sample, distinct estimates examined, answer, branch taken
vars == <<k, seen, result, branch>>
None == "none"
Contains(c) == c = T                  \* cells of one resolution partition the sphere (C03)
Dist(c) == IF c = T THEN 0 ELSE IF c = "far" THEN 9 ELSE 1

Init == k = 0 /\ seen = <<>> /\ result = None /\ branch = "searching"
InSeen(c) == \E i \in 1..Len(seen) : seen[i] = c

Sample == /\ branch = "searching" /\ k < NSamples
          /\ \E c \in Cells :
               IF InSeen(c) THEN k' = k + 1 /\ UNCHANGED <<seen, result, branch>>
               ELSE /\ seen' = Append(seen, c) /\ k' = k + 1
                    /\ IF Contains(c)
                         THEN result' = c /\ branch' = IF k = 0 THEN "direct" ELSE "probe"
                         ELSE UNCHANGED <<result, branch>>
Fallback == /\ branch = "searching" /\ k = NSamples
            /\ result' = CHOOSE c \in {seen[i] : i \in 1..Len(seen)} : \A j \in 1..Len(seen) : Dist(c) <= Dist(seen[j])
            /\ branch' = "fallback"
            /\ UNCHANGED <<k, seen>>
Next == Sample \/ Fallback
Spec == Init /\ [][Next]_vars

Answered == branch # "searching"
\* the answer contains the point exactly when the true cell was among the estimates
CorrectIffCovered == Answered => ((result = T) <=> InSeen(T))
\* direct/probe answers are always right; only the fallback can return a non-containing cell
OnlyFallbackCanBeWrong == (Answered /\ result # T) => branch = "fallback"
FallbackMeansUncovered == branch = "fallback" => ~InSeen(T)
=============================================================================
