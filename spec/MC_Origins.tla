----------------------------- MODULE MC_Origins -----------------------------
(* exhaustive checks of the relabelling and of the face graph (C18) *)
EXTENDS A5Origins, TLC, Json
VARIABLES f, phase
Init == f = 0 /\ phase = "start"
Next == phase = "start" /\ \E x \in 0..11 : f' = x /\ phase' = "face"
Spec == Init /\ [][Next]_<<f, phase>>

Relabelling ==
  phase = "face" =>
    /\ \A q \in 0..4 : LET sg == QuintantToSegment(q, f) IN
                         /\ sg[1] \in 0..4
                         /\ SegmentToQuintant(sg[1], f) = <<q, sg[2]>>        \* inverse, same orientation
    /\ \A g \in 0..4 : LET qo == SegmentToQuintant(g, f) IN
                         /\ qo[1] \in 0..4
                         /\ QuintantToSegment(qo[1], f) = <<g, qo[2]>>
    /\ Cardinality({QuintantToSegment(q, f)[1] : q \in 0..4}) = 5             \* bijection of 0..4
    /\ {QuintantToSegment(q, f)[2] : q \in 0..4} = {Layout(f)[k] : k \in 1..5}

FaceGraph ==
  phase = "start" =>
    /\ \A a \in 0..11 : Cardinality({b \in 0..11 : Adjacent(a, b)}) = 5 /\ ~Adjacent(a, a)
    /\ \A a \in 0..11 : \A b \in 0..11 : Adjacent(a, b) = Adjacent(b, a)
    /\ \A a \in 0..11 : Antipode(Antipode(a)) = a /\ Antipode(a) # a /\ ~Adjacent(a, Antipode(a))
    \* icosahedral graph: adjacent faces have exactly two common neighbours
    /\ \A a \in 0..11 : \A b \in 0..11 :
         Adjacent(a, b) => Cardinality({c \in 0..11 : Adjacent(a, c) /\ Adjacent(b, c)}) = 2
    /\ \A a \in 0..11 : \A b \in 0..11 : Adjacent(a, b) => Adjacent(Antipode(a), Antipode(b))
    \* 12 faces, 30 edges, 20 vertices (triples of mutually adjacent faces): V - E + F = 2
    /\ Cardinality({e \in SUBSET (0..11) : Cardinality(e) = 2 /\ \A a \in e : \A b \in e : a # b => Adjacent(a, b)}) = 30
    /\ Cardinality({t \in SUBSET (0..11) : Cardinality(t) = 3 /\ \A a \in t : \A b \in t : a # b => Adjacent(a, b)}) = 20

\* the quintant chosen from the polar angle is the quintant whose vertices build the face triangle
SectorsConsistent ==
  phase = "start" =>
    \A g \in {2 * k + 1 : k \in -200..200} :
      /\ QuintantOfAngle(g) = QuintantOfTriangle(FaceTriangleIndex(g))
      /\ FaceTriangleIndex(g) \in 0..9 /\ QuintantOfAngle(g) \in 0..4
      /\ FaceTriangleIndex(g + TurnH) = FaceTriangleIndex(g)

Dump == phase = "face" => PrintT("REPLAY " \o ToJson([kind |-> "face", face |-> f, first |-> FirstQ(f), layout |-> Layout(f),
                                   clockwise |-> IsClockwise(f), antipode |-> Antipode(f),
                                   adjacent |-> [g \in 0..11 |-> Adjacent(f, g)]]))
=============================================================================
