---------------------------- MODULE A5CacheSlots ----------------------------
(* Slot arithmetic of the projection memo cache (see A5Cache): which slots a key reads and fills. *)
EXTENDS Naturals, Integers, Sequences, FiniteSets
CONSTANTS ReflOffset, SquashOffset, SphReflOffset       \* 10, 20, 120 in the code

FaceSlot(idx, refl, squashed) == IF refl THEN idx + (IF squashed THEN SquashOffset ELSE ReflOffset) ELSE idx
SphSlot(origin, idx, refl) == 10 * origin + idx + (IF refl THEN SphReflOffset ELSE 0)
\* what the slot's content means (an unreflected triangle is the same squashed or not)
FaceVal(idx, refl, squashed) == IF refl THEN <<"face", 0, idx, TRUE, squashed>> ELSE <<"face", 0, idx, FALSE, FALSE>>
SphVal(origin, idx, refl) == <<"sph", origin, idx, refl, FALSE>>
Expected(k) == <<FaceVal(k.idx, k.refl, FALSE), SphVal(k.origin, k.idx, k.refl)>>

Touched(k, sphWasEmpty) ==
  [face |-> {FaceSlot(k.idx, k.refl, FALSE)} \cup (IF sphWasEmpty THEN {FaceSlot(k.idx, k.refl, TRUE)} ELSE {}),
   sph |-> {SphSlot(k.origin, k.idx, k.refl)}]

=============================================================================
