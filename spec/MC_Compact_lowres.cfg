SPECIFICATION Spec
CONSTANTS
  Variant = "resorted"
  Family = "lowres"
  Size = "quick"
INVARIANTS CoverPreserved NoDuplicates MaximalAtEnd CanonicalAtEnd FixedPoint CanonCharacterisesCover Terminates Dump
CHECK_DEADLOCK FALSE
