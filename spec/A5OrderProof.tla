--------------------------- MODULE A5OrderProof ---------------------------
(***************************************************************************)
(* Unbounded complement to MC_Order (C20), proved with TLAPS.              *)
(* IDs of one resolution differ only in their digit field (the marker and  *)
(* the zero padding are the same), so numeric order is lexicographic order *)
(* of the digit strings; the ancestor at a coarser level keeps a PREFIX of *)
(* the digits.  The lemma: lexicographic order of equal-length strings is  *)
(* monotone under taking prefixes -- for every length, not only <= 32.     *)
(***************************************************************************)
EXTENDS Integers, NaturalsInduction, TLAPS

Less(a, b, n) == \E k \in 1..n : /\ a[k] < b[k]
                                 /\ \A j \in 1..(k - 1) : a[j] = b[j]
Same(a, b, n) == \A j \in 1..n : a[j] = b[j]
Leq(a, b, n) == Less(a, b, n) \/ Same(a, b, n)

THEOREM PrefixMonotone ==
  ASSUME NEW n \in Nat, NEW m \in Nat, m <= n, NEW a, NEW b, Less(a, b, n)
  PROVE  Leq(a, b, m)
<1>1. PICK k \in 1..n : a[k] < b[k] /\ \A j \in 1..(k - 1) : a[j] = b[j]
  BY DEF Less
<1>2. CASE k <= m
  <2>1. k \in 1..m  BY <1>2
  <2>2. Less(a, b, m)  BY <1>1, <2>1 DEF Less
  <2> QED  BY <2>2 DEF Leq
<1>3. CASE k > m
  <2>1. \A j \in 1..m : j \in 1..(k - 1)  BY <1>3
  <2>2. Same(a, b, m)  BY <1>1, <2>1 DEF Same
  <2> QED  BY <2>2 DEF Leq
<1> QED  BY <1>2, <1>3

\* consequence used by range scans: if a and b share their first m digits, every string lying between them
\* (in lexicographic order) shares those m digits too -- a subtree is one contiguous interval
THEOREM SubtreeContiguous ==
  ASSUME NEW n \in Nat, NEW m \in Nat, m <= n, NEW a, NEW b, NEW x,
         Same(a, b, m), Leq(a, x, n), Leq(x, b, n),
         \A j \in 1..n : a[j] \in Int /\ b[j] \in Int /\ x[j] \in Int
  PROVE  Same(a, x, m)
<1> DEFINE P(i) == i <= m => \A j \in 1..i : a[j] = x[j]
<1>1. P(0)  OBVIOUS
<1>2. ASSUME NEW i \in Nat, P(i) PROVE P(i + 1)
  <2> SUFFICES ASSUME i + 1 <= m PROVE \A j \in 1..(i + 1) : a[j] = x[j]  BY DEF P
  <2>0. \A j \in 1..i : a[j] = x[j]  BY <1>2 DEF P
  <2>t. i + 1 \in 1..n /\ a[i + 1] \in Int /\ b[i + 1] \in Int /\ x[i + 1] \in Int  OBVIOUS
  <2>1. a[i + 1] <= x[i + 1]
    <3>1. CASE Same(a, x, n)  BY <3>1, <2>t DEF Same
    <3>2. CASE Less(a, x, n)
      <4>1. PICK k \in 1..n : a[k] < x[k] /\ \A j \in 1..(k - 1) : a[j] = x[j]  BY <3>2 DEF Less
      <4>2. CASE k < i + 1
        <5>1. k \in 1..i  BY <4>2
        <5>2. a[k] = x[k]  BY <5>1, <2>0
        <5> QED  BY <4>1, <5>2, <2>t
      <4>3. CASE k = i + 1   BY <4>1, <4>3, <2>t
      <4>4. CASE k > i + 1
        <5>1. i + 1 \in 1..(k - 1)  BY <4>4
        <5> QED  BY <4>1, <5>1, <2>t
      <4> QED  BY <4>2, <4>3, <4>4
    <3> QED  BY <3>1, <3>2 DEF Leq
  <2>2. x[i + 1] <= b[i + 1]
    <3>0. \A j \in 1..i : x[j] = b[j]
      <4> SUFFICES ASSUME NEW j \in 1..i PROVE x[j] = b[j]  OBVIOUS
      <4>1. j \in 1..m  OBVIOUS
      <4> QED  BY <2>0, <4>1 DEF Same
    <3>1. CASE Same(x, b, n)  BY <3>1, <2>t DEF Same
    <3>2. CASE Less(x, b, n)
      <4>1. PICK k \in 1..n : x[k] < b[k] /\ \A j \in 1..(k - 1) : x[j] = b[j]  BY <3>2 DEF Less
      <4>2. CASE k < i + 1
        <5>1. k \in 1..i  BY <4>2
        <5>2. x[k] = b[k]  BY <5>1, <3>0
        <5> QED  BY <4>1, <5>2, <2>t
      <4>3. CASE k = i + 1   BY <4>1, <4>3, <2>t
      <4>4. CASE k > i + 1
        <5>1. i + 1 \in 1..(k - 1)  BY <4>4
        <5> QED  BY <4>1, <5>1, <2>t
      <4> QED  BY <4>2, <4>3, <4>4
    <3> QED  BY <3>1, <3>2 DEF Leq
  <2>3. a[i + 1] = b[i + 1]
    <3>1. i + 1 \in 1..m  OBVIOUS
    <3> QED  BY <3>1 DEF Same
  <2>4. a[i + 1] = x[i + 1]  BY <2>1, <2>2, <2>3, <2>t
  <2> QED  BY <2>0, <2>4
<1>3. \A i \in Nat : P(i)  BY <1>1, <1>2, NatInduction, Isa
<1>4. P(m)  BY <1>3
<1> QED  BY <1>4 DEF Same
=============================================================================
