SPECIFICATION Spec
CONSTANTS
  MaxExh = 4
  StrLen = 3
INVARIANTS RoundTrip LayoutUnique AliasSound HexRoundTrip HexParseTotal Injective Dump
CHECK_DEADLOCK FALSE
