SPECIFICATION Spec
CONSTANTS
  MaxR = 4
  MaxT = 6
INVARIANTS ChildrenLaw AncestorCompose ChildrenCompose ParentIsAnc Partition IdTree
CHECK_DEADLOCK FALSE
