------------------------------ MODULE A5Cache ------------------------------
(***************************************************************************)
(* The memoisation inside the projection (src/projections/dodecahedron.rs) *)
(* and the lazily built process-wide tables, as a multi-threaded state     *)
(* machine.                                                                *)
(*   - every thread owns one DodecahedronProjection with 30 face-triangle  *)
(*     slots (10 base + 10 reflected + 10 squashed) and 240 spherical-     *)
(*     triangle slots (120 base + 120 reflected);                          *)
(*   - forward/inverse with key (origin, idx, reflected) read the face     *)
(*     slot  idx + 10*reflected  and the spherical slot                    *)
(*     10*origin + idx + 120*reflected; a spherical miss first fills the   *)
(*     squashed face slot  idx + 20*reflected  (re-entrant fill);          *)
(*   - ORIGINS, PENTAGON_CONSTANTS and the reversed PATTERN tables are     *)
(*     once-cells shared by all threads.                                   *)
(* A slot stores a tag naming the computation that filled it; a call       *)
(* returns the tags it read.  Purity = the returned tags are a function of *)
(* the key alone, in every reachable state of every interleaving.          *)
(***************************************************************************)
EXTENDS A5CacheSlots, TLC

CONSTANTS Threads, Keys, MaxCalls
NoVal == <<"empty", 0, 0, FALSE, FALSE>>

VARIABLES face, sph,        \* [thread -> [slot -> tag]]
          once,             \* [cell -> <<"uninit", 0>> | <<"running", t>> | <<"done", 0>>]
          pc, cur, got, ncalls,
          hist              \* completed calls << t, key, result >> (observation only)
vars == <<face, sph, once, pc, cur, got, ncalls, hist>>
OnceCells == {"origins", "pentagon", "patterns"}

Init == /\ face = [t \in Threads |-> [s \in 0..29 |-> NoVal]]
        /\ sph = [t \in Threads |-> [s \in 0..239 |-> NoVal]]
        /\ once = [c \in OnceCells |-> <<"uninit", 0>>]
        /\ pc = [t \in Threads |-> "idle"]
        /\ cur = [t \in Threads |-> CHOOSE k \in Keys : TRUE]
        /\ got = [t \in Threads |-> <<NoVal, NoVal>>]
        /\ ncalls = [t \in Threads |-> 0]
        /\ hist = <<>>

Begin(t) == /\ pc[t] = "idle" /\ ncalls[t] < MaxCalls
            /\ \E k \in Keys : cur' = [cur EXCEPT ![t] = k]
            /\ pc' = [pc EXCEPT ![t] = "once"]
            /\ UNCHANGED <<face, sph, once, got, ncalls, hist>>

\* get_origins(): first caller initialises, the others wait until it is done (OnceLock)
OnceStart(t) == /\ pc[t] = "once"
                /\ \E c \in OnceCells : once[c] = <<"uninit", 0>> /\ once' = [once EXCEPT ![c] = <<"running", t>>]
                /\ UNCHANGED <<face, sph, pc, cur, got, ncalls, hist>>
OnceFinish(t) == /\ pc[t] = "once"
                 /\ \E c \in OnceCells : once[c] = <<"running", t>> /\ once' = [once EXCEPT ![c] = <<"done", 0>>]
                 /\ UNCHANGED <<face, sph, pc, cur, got, ncalls, hist>>
OnceReady(t) == /\ pc[t] = "once" /\ \A c \in OnceCells : once[c] = <<"done", 0>>
                /\ pc' = [pc EXCEPT ![t] = "face"]
                /\ UNCHANGED <<face, sph, once, cur, got, ncalls, hist>>

\* get_face_triangle(idx, reflect, false)
FaceStep(t) ==
  /\ pc[t] = "face"
  /\ LET k == cur[t]  s == FaceSlot(k.idx, k.refl, FALSE)
         v == IF face[t][s] # NoVal THEN face[t][s] ELSE FaceVal(k.idx, k.refl, FALSE)
     IN /\ face' = [face EXCEPT ![t][s] = v]
        /\ got' = [got EXCEPT ![t][1] = v]
  /\ pc' = [pc EXCEPT ![t] = "sph"]
  /\ UNCHANGED <<sph, once, cur, ncalls, hist>>

\* get_spherical_triangle: hit, or miss -> squashed face triangle first
SphStep(t) ==
  /\ pc[t] = "sph"
  /\ LET k == cur[t]  s == SphSlot(k.origin, k.idx, k.refl)
     IN IF sph[t][s] # NoVal
          THEN /\ got' = [got EXCEPT ![t][2] = sph[t][s]]
               /\ pc' = [pc EXCEPT ![t] = "ret"]
               /\ UNCHANGED <<face, sph>>
          ELSE /\ pc' = [pc EXCEPT ![t] = "squash"]
               /\ UNCHANGED <<face, sph, got>>
  /\ UNCHANGED <<once, cur, ncalls, hist>>
SquashStep(t) ==
  /\ pc[t] = "squash"
  /\ LET k == cur[t]  fs == FaceSlot(k.idx, k.refl, TRUE)  s == SphSlot(k.origin, k.idx, k.refl)
         fv == IF face[t][fs] # NoVal THEN face[t][fs] ELSE FaceVal(k.idx, k.refl, TRUE)
         \* the spherical triangle is computed FROM the squashed face triangle it read
         sv == IF fv = FaceVal(k.idx, k.refl, TRUE) THEN SphVal(k.origin, k.idx, k.refl) ELSE <<"sph-from-wrong-face", k.origin, k.idx, k.refl, fv[5]>>
     IN /\ face' = [face EXCEPT ![t][fs] = fv]
        /\ sph' = [sph EXCEPT ![t][s] = sv]
        /\ got' = [got EXCEPT ![t][2] = sv]
  /\ pc' = [pc EXCEPT ![t] = "ret"]
  /\ UNCHANGED <<once, cur, ncalls, hist>>
Return(t) == /\ pc[t] = "ret"
             /\ hist' = Append(hist, <<t, cur[t], got[t]>>)
             /\ ncalls' = [ncalls EXCEPT ![t] = @ + 1]
             /\ pc' = [pc EXCEPT ![t] = "idle"]
             /\ UNCHANGED <<face, sph, once, cur, got>>

Next == \E t \in Threads : Begin(t) \/ OnceStart(t) \/ OnceFinish(t) \/ OnceReady(t) \/ FaceStep(t) \/ SphStep(t) \/ SquashStep(t) \/ Return(t)
Spec == Init /\ [][Next]_vars

---------------------------------------------------------------------------
\* every call returns what a cold call with the same key returns
Purity == \A i \in 1..Len(hist) : hist[i][3] = Expected(hist[i][2])
\* a filled slot holds the value of its own key
SlotsHoldOwnValue ==
  \A t \in Threads :
    /\ \A k \in Keys : LET s == SphSlot(k.origin, k.idx, k.refl) IN sph[t][s] # NoVal => sph[t][s] = SphVal(k.origin, k.idx, k.refl)
    /\ \A k \in Keys : \A sq \in BOOLEAN :
         LET s == FaceSlot(k.idx, k.refl, sq) IN face[t][s] # NoVal => face[t][s] = FaceVal(k.idx, k.refl, sq)
\* nobody proceeds past the once-cells while another thread is still initialising them
OnceSafety == \A t \in Threads : pc[t] \notin {"idle", "once"} => \A c \in OnceCells : once[c] = <<"done", 0>>
\* static: the real index arithmetic is injective on keys with different values (all 12 x 10 x 2 keys)
SlotArithmetic ==
  /\ \A o1 \in 0..11, o2 \in 0..11, i1 \in 0..9, i2 \in 0..9, r1 \in BOOLEAN, r2 \in BOOLEAN :
       SphSlot(o1, i1, r1) = SphSlot(o2, i2, r2) => <<o1, i1, r1>> = <<o2, i2, r2>>
  /\ \A i1 \in 0..9, i2 \in 0..9, r1 \in BOOLEAN, r2 \in BOOLEAN, s1 \in BOOLEAN, s2 \in BOOLEAN :
       FaceSlot(i1, r1, s1) = FaceSlot(i2, r2, s2) => FaceVal(i1, r1, s1) = FaceVal(i2, r2, s2)
  /\ \A o1 \in 0..11, i1 \in 0..9, r1 \in BOOLEAN : SphSlot(o1, i1, r1) \in 0..239
  /\ \A i1 \in 0..9, r1 \in BOOLEAN, s1 \in BOOLEAN : FaceSlot(i1, r1, s1) \in 0..29
=============================================================================
