SPECIFICATION Spec
CONSTANT AllOrders = TRUE
INVARIANTS NeverTwice ClosedIffComplete CountsOK FinalCounts Consistent
CHECK_DEADLOCK FALSE
