------------------------------- MODULE A5Lon -------------------------------
(***************************************************************************)
(* Longitude unwrapping of a ring (normalize_longitudes in                 *)
(* src/core/coordinate_transforms.rs), on integer degrees: every longitude *)
(* is moved by a multiple of 360 to within 180 of a reference longitude    *)
(* (the ring's centre, or the first point when the centre is at a pole).   *)
(***************************************************************************)
EXTENDS Integers

\* the representative of lon (mod 360) in (c - 180, c + 180]; both loops of the code, as arithmetic
Unwrap(lon, c) == LET d == (((lon - c) % 360) + 360) % 360      \* 0..359
                  IN IF d > 180 THEN c + d - 360 ELSE c + d
NormCentre(c) == (((((c + 180) % 360) + 360) % 360)) - 180         \* into [-180, 180)
SameMeridian(a, b) == (a - b) % 360 = 0

\* what C11 needs: a ring whose points all lie within an arc shorter than 180 degrees around the centre
\* comes out within a 180-degree window, whatever multiples of 360 the inputs carried
WithinArc(lons, c, half) == \A i \in DOMAIN lons : LET d == (((((lons[i] - c) + 180) % 360) + 360) % 360) - 180 IN (d > (0 - half)) /\ (d < half)
=============================================================================
