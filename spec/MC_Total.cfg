SPECIFICATION Spec
INVARIANTS DemandTotal DemandSane ClassesCovered Dump
CHECK_DEADLOCK FALSE
