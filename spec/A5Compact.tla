----------------------------- MODULE A5Compact -----------------------------
(***************************************************************************)
(* Compaction.                                                             *)
(*  - Abstract part: covers, antichains, the canonical form Canon(S) of a  *)
(*    set of cells (drop covered cells, then merge complete sibling groups *)
(*    bottom-up).  Cover(A) = Cover(B)  <=>  CanonSet(A) = CanonSet(B)     *)
(*    (checked exhaustively on small universes by MC_Compact).             *)
(*  - Implementation-shaped part: the pass loop of compact() as written in *)
(*    src/core/compact.rs -- one scan per pass over a sorted vector,       *)
(*    is_first_child / stride arithmetic on IDs, parent pushed in place.   *)
(*    Variant "v062" is the algorithm of the pinned tree (single initial   *)
(*    sort by ID); variant "resorted" sorts by (resolution, ID) and        *)
(*    de-duplicates at the start of every pass.                            *)
(***************************************************************************)
EXTENDS A5Tree, SequencesExt

IsAncOf(a, c) == a.res < c.res /\ Anc(c, a.res) = a          \* strict ancestor
Antichain(S) == \A a \in S : \A c \in S : ~IsAncOf(a, c)
MaxElems(S) == {c \in S : ~\E a \in S : IsAncOf(a, c)}

CompleteParents(S) ==
  LET P == {Parent(c) : c \in {x \in S : x.res >= 0}}
  IN {p \in P : ChildrenOf(p) \subseteq S}

RECURSIVE MergeAll(_)
MergeAll(S) ==
  LET full == CompleteParents(S)
  IN IF full = {} THEN S
     ELSE MergeAll((S \ UNION {ChildrenOf(p) : p \in full}) \cup full)

CanonSet(S) == MergeAll(MaxElems(S))
Maximal(S) == CompleteParents(S) = {}

\* cover at a resolution R at least as fine as every element (small instances only)
Cover(S, R) == UNION {Desc(c, R) : c \in S}
Finest(S) == IF S = {} THEN -1 ELSE CHOOSE r \in {c.res : c \in S} : \A c \in S : c.res <= r

---------------------------------------------------------------------------
(* the pass loop of the implementation *)

ExpectedSiblings(c) == IF c.res >= 2 THEN 4 ELSE IF c.res = 0 THEN 12 ELSE 5

\* is_first_child(): arithmetic on the ID, not on the tree
IsFirstChildId(c) ==
  IF c.res < 2 THEN TopOf(c) % (IF c.res = 0 THEN 12 ELSE 5) = 0
  ELSE c.s[Len(c.s)] = 0

\* cell + j * get_stride(res): add j at the quad holding the last curve digit (or the top six bits)
StridePos(c) == IF c.res < 2 THEN 3 ELSE c.res + 2
PlusStride(c, j) == AddAt(Encode(c), StridePos(c), j)

RECURSIVE Scan(_, _, _, _)
Scan(cur, i, out, ch) ==            \* one pass; returns << result, changed >>
  IF i > Len(cur) THEN <<out, ch>>
  ELSE LET c == cur[i]
           e == ExpectedSiblings(c)
           grp == /\ c.res >= 0
                  /\ i - 1 + e <= Len(cur)
                  /\ IsFirstChildId(c)
                  /\ \A j \in 1..(e - 1) : Encode(cur[i + j]) = PlusStride(c, j)
       IN IF grp THEN Scan(cur, i + e, Append(out, Parent(c)), TRUE)
                 ELSE Scan(cur, i + 1, Append(out, c), ch)

LessId(a, b) == Less(Encode(a), Encode(b))
LessResId(a, b) == a.res < b.res \/ (a.res = b.res /\ LessId(a, b))
SortedById(S) == SortSeq(SetToSeq(S), LessId)
SortedByResId(S) == SortSeq(SetToSeq(S), LessResId)
SeqSet(s) == {s[i] : i \in 1..Len(s)}
IsSortedById(s) == \A i \in 1..(Len(s) - 1) : LessId(s[i], s[i + 1])
=============================================================================
