SPECIFICATION Spec
CONSTANT AllOrders = FALSE
INVARIANTS NeverTwice ClosedIffComplete CountsOK FinalCounts Consistent
CHECK_DEADLOCK FALSE
