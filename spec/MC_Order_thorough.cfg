SPECIFICATION Spec
CONSTANTS
  MaxR = 4
  DeepRes = {1, 2, 3, 9, 17, 28}
INVARIANTS MonotoneAncestors Contiguous BaseCellsInterleave DeepSiblings
CHECK_DEADLOCK FALSE
