SPECIFICATION Spec
CONSTANTS
  MaxLen = 3
  MaxTarget = 5
INVARIANTS ImplMeetsSpec Dump
CHECK_DEADLOCK FALSE
