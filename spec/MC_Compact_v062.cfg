SPECIFICATION Spec
CONSTANTS
  Variant = "v062"
  Family = "faces"
  Size = "quick"
INVARIANTS CoverPreserved MaximalAtEnd
CHECK_DEADLOCK FALSE
