------------------------------- MODULE MC_Lon -------------------------------
EXTENDS A5Lon, TLC
VARIABLES c, a, b, phase
Init == c = 0 /\ a = 0 /\ b = 0 /\ phase = "start"
Lons == {15 * k : k \in -36..36}          \* -540..540
Next == phase = "start" /\ \E x \in {30 * k - 180 : k \in 0..11} : \E y \in Lons : \E z \in Lons :
          c' = x /\ a' = y /\ b' = z /\ phase' = "ring"
Spec == Init /\ [][Next]_<<c, a, b, phase>>
UnwrapLaws ==
  phase = "ring" =>
    /\ SameMeridian(Unwrap(a, c), a)                                   \* only multiples of 360 are added
    /\ Unwrap(a, c) - c <= 180 /\ Unwrap(a, c) - c > -180               \* within 180 of the reference
    /\ Unwrap(Unwrap(a, c), c) = Unwrap(a, c)                           \* idempotent
    /\ (SameMeridian(a, b) => Unwrap(a, c) = Unwrap(b, c))              \* aliases collapse
    \* a ring inside an arc of half-width 90 around the centre is reported in one piece
    /\ (WithinArc(<<a, b>>, c, 90) => (Unwrap(a, c) - Unwrap(b, c) < 180 /\ Unwrap(b, c) - Unwrap(a, c) < 180))
    /\ NormCentre(c + 720) = NormCentre(c) /\ NormCentre(c) >= -180 /\ NormCentre(c) < 180
=============================================================================
