SPECIFICATION LiveSpec
CONSTANTS
  Variant = "resorted"
  Family = "lowres"
  Size = "quick"
INVARIANTS CoverPreserved NoDuplicates
PROPERTIES Termination PassShrinks
CHECK_DEADLOCK FALSE
