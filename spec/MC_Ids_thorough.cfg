SPECIFICATION Spec
CONSTANTS
  MaxExh = 5
  StrLen = 3
INVARIANTS RoundTrip LayoutUnique AliasSound HexRoundTrip HexParseTotal Injective Dump
CHECK_DEADLOCK FALSE
