SPECIFICATION MSpec
CONSTANTS
  CellIds <- MCCellIds
  Values <- MCValues
  N = 4
INVARIANTS NeverBad TestedOnce HitIsFirstPositive FallbackIsBest BranchMeaning EstimatesBound
CHECK_DEADLOCK FALSE
