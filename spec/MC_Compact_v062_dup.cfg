SPECIFICATION Spec
CONSTANTS
  Variant = "v062"
  Family = "lowres"
  Size = "quick"
INVARIANTS CoverPreserved NoDuplicates
CHECK_DEADLOCK FALSE
