SPECIFICATION Spec
CONSTANTS
  Threads = {1, 2}
  Keys <- KeysSmall
  MaxCalls = 2
  ReflOffset = 10
  SquashOffset = 20
  SphReflOffset = 120
INVARIANTS Purity SlotsHoldOwnValue OnceSafety SlotArithmetic Dump
CHECK_DEADLOCK FALSE
