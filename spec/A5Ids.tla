------------------------------ MODULE A5Ids ------------------------------
(***************************************************************************)
(* The 64-bit cell identifier of A5 as a quad string (see A5Digits).       *)
(*                                                                         *)
(* A cell description is  [res, face, seg, s]  with                        *)
(*   res  in -1..29  (-1 = the world cell),                                *)
(*   face in 0..11,  seg in 0..4 (segment = quintant label on the face),   *)
(*   s    = the curve position as a sequence of res-1 base-4 digits,       *)
(*          most significant first (empty below resolution 2).             *)
(* Canonical descriptions have seg = 0 at res 0, face = seg = 0 for the    *)
(* world cell.                                                             *)
(***************************************************************************)
EXTENDS A5Digits, FiniteSets

MaxRes == 29
\* QUINTANT_FIRST is indexed by construction order; faces are then renumbered by ORIGIN_ORDER
QuintantFirstRaw == <<4, 2, 3, 2, 0, 4, 3, 2, 2, 0, 3, 0>>
OriginOrder == <<0, 1, 2, 4, 3, 5, 7, 8, 6, 11, 10, 9>>
FirstQuintant == [f \in 1..12 |-> QuintantFirstRaw[OriginOrder[f] + 1]]   \* index face+1

H(res) == IF res >= 2 THEN res - 1 ELSE 0                 \* number of curve levels

World == [res |-> -1, face |-> 0, seg |-> 0, s |-> <<>>]

IsCell(c) ==
  /\ c.res \in -1..MaxRes
  /\ c.face \in 0..11 /\ c.seg \in 0..4
  /\ Len(c.s) = H(c.res) /\ \A k \in 1..Len(c.s) : c.s[k] \in Quad
  /\ (c.res = -1 => c.face = 0 /\ c.seg = 0)
  /\ (c.res = 0 => c.seg = 0)

Top6(v) == <<v \div 16, (v \div 4) % 4, v % 4>>
TopVal(q) == 16 * q[1] + 4 * q[2] + q[3]

\* the face-relative quintant number written into the ID
RelQuint(face, seg) == (seg + 5 - FirstQuintant[face + 1]) % 5
SegOf(face, rel) == (rel + FirstQuintant[face + 1]) % 5

TopOf(c) == IF c.res = 0 THEN c.face ELSE 5 * c.face + RelQuint(c.face, c.seg)

(***************************************************************************)
(* Encode: serialize() of the implementation, as quads.                    *)
(***************************************************************************)
Encode(c) ==
  IF c.res = -1 THEN Zero32
  ELSE LET h == H(c.res)
           t == Top6(TopOf(c))
           mk == IF c.res = 1 THEN 1 ELSE 2
       IN [k \in 1..W |-> IF k <= 3 THEN t[k]
                          ELSE IF k <= 3 + h THEN c.s[k - 3]
                          ELSE IF k = 4 + h THEN mk ELSE 0]

(***************************************************************************)
(* The documented layout, stated bit by bit and independently of Encode:   *)
(* 6 bits of face (r = 0) or 5*face + quintant, 2 bits per curve level,    *)
(* one marker bit, zeros.                                                  *)
(***************************************************************************)
MarkerBit(res) == IF res = 0 THEN 57 ELSE IF res = 1 THEN 56 ELSE 57 - 2 * (res - 1)

DocLayout(c, q) ==
  IF c.res = -1 THEN \A b \in 0..63 : Bit(q, b) = 0
  ELSE
    /\ TopVal(q) = TopOf(c)
    /\ \A k \in 1..H(c.res) : 2 * Bit(q, 59 - 2 * k) + Bit(q, 58 - 2 * k) = c.s[k]
    /\ Bit(q, MarkerBit(c.res)) = 1
    /\ \A b \in 0..(MarkerBit(c.res) - 1) : Bit(q, b) = 0
    /\ (c.res = 0 => Bit(q, 56) = 0)   \* nothing else between the 6 bits and the marker
    /\ (c.res = 1 => Bit(q, 57) = 0)

(***************************************************************************)
(* get_resolution(): scan bits 1, 3, ..., 55, 56, 57 from the right; the   *)
(* first set bit gives the resolution.  Written like the loop in the code. *)
(***************************************************************************)
ScanPos(res) == IF res >= 2 THEN 1 + 2 * (29 - res) ELSE IF res = 1 THEN 56 ELSE 57
RECURSIVE ScanFrom(_, _)
ScanFrom(q, res) ==
  IF res = -1 THEN -1
  ELSE IF Bit(q, ScanPos(res)) = 1 THEN res ELSE ScanFrom(q, res - 1)
ScanResolution(q) == ScanFrom(q, 29)

(***************************************************************************)
(* Decode: deserialize() of the implementation (it tolerates garbage bits: *)
(* several bit patterns alias one cell).                                   *)
(***************************************************************************)
DecErr == [ok |-> FALSE, cell |-> World]
Decode(q) ==
  LET r == ScanResolution(q)
      t == TopVal(q)
  IN IF r = -1 THEN [ok |-> TRUE, cell |-> World]
     ELSE IF r = 0 THEN
            IF t >= 12 THEN DecErr
            ELSE [ok |-> TRUE, cell |-> [res |-> 0, face |-> t, seg |-> 0, s |-> <<>>]]
     ELSE IF t \div 5 >= 12 THEN DecErr
     ELSE LET f == t \div 5
          IN [ok |-> TRUE,
              cell |-> [res |-> r, face |-> f, seg |-> SegOf(f, t % 5),
                        s |-> [k \in 1..H(r) |-> q[3 + k]]]]

Canonical(q) == LET d == Decode(q) IN d.ok /\ Encode(d.cell) = q
ResOfCanon(q) == Decode(q).cell.res

\* the canonical ID a (decodable) pattern aliases
Canon(q) == Encode(Decode(q).cell)

(***************************************************************************)
(* Classification of arbitrary 64-bit patterns (used by the totality plan  *)
(* of C14): which scanned bit is the first one set, validity class of the  *)
(* top six bits, and which kinds of garbage bits are present.              *)
(***************************************************************************)
TopClass(q, r) ==
  LET t == TopVal(q)
  IN IF r = -1 THEN "any"
     ELSE IF r = 0 THEN (IF t < 12 THEN "valid" ELSE "invalid")
     ELSE (IF t < 60 THEN "valid" ELSE "invalid")

Classify(q) ==
  LET r == ScanResolution(q)
      canon == IF r = -1 THEN q = Zero32
               ELSE IF TopClass(q, r) = "valid" THEN Canonical(q) ELSE FALSE
  IN [res |-> r, top |-> TopClass(q, r), canonical |-> canon,
      worldAlias |-> (r = -1 /\ q # Zero32)]

(***************************************************************************)
(* Hexadecimal text form.  Characters are ASCII codes.                     *)
(***************************************************************************)
HexChar(n) == IF n < 10 THEN 48 + n ELSE 87 + n          \* lower case
IsHexCode(c) == (c >= 48 /\ c <= 57) \/ (c >= 97 /\ c <= 102) \/ (c >= 65 /\ c <= 70)
HexVal(c) == IF c <= 57 THEN c - 48 ELSE IF c >= 97 THEN c - 87 ELSE c - 55

RECURSIVE LeadingZeros(_, _)
LeadingZeros(nb, k) == IF k > Len(nb) THEN Len(nb)
                       ELSE IF nb[k] # 0 THEN k - 1 ELSE LeadingZeros(nb, k + 1)

\* format: the 1..16 lower-case digits without leading zeros
HexFmt(q) ==
  LET nb == Nibbles(q)
      z == LeadingZeros(nb, 1)
      start == IF z = 16 THEN 16 ELSE z + 1
  IN [j \in 1..(17 - start) |-> HexChar(nb[start + j - 1])]

\* parse of a pure digit string (optionally signed with '+'):
\*   "err" if empty or the value needs more than 64 bits, else the exact value
HexParseDigits(str) ==
  LET body == IF Len(str) >= 1 /\ str[1] = 43 THEN Tail(str) ELSE str
      nb == [j \in 1..Len(body) |-> HexVal(body[j])]
      z == LeadingZeros(nb, 1)
      sig == Len(nb) - z
  IN IF Len(body) = 0 \/ sig > 16 THEN [ok |-> FALSE, val |-> Zero32]
     ELSE [ok |-> TRUE,
           val |-> FromNibbles([j \in 1..16 |-> IF j <= 16 - sig THEN 0
                                                ELSE nb[z + j - (16 - sig)]])]

IsDigitString(str) ==
  LET body == IF Len(str) >= 1 /\ str[1] = 43 THEN Tail(str) ELSE str
  IN \A j \in 1..Len(body) : IsHexCode(body[j])
=============================================================================
