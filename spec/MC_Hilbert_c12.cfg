SPECIFICATION Spec
CONSTANTS Depths = {1,2,3,4,5}
INVARIANTS Locality LocalClosed RelClosed RelSaturated FourPerType
CHECK_DEADLOCK FALSE
