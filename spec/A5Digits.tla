----------------------------- MODULE A5Digits -----------------------------
(***************************************************************************)
(* Quad strings.  TLC integers are 32 bit, so a 64-bit cell ID is modelled *)
(* as a sequence of 32 base-4 digits ("quads"), most significant first.    *)
(* Quad k (1-based) holds bits 65-2k (high) and 64-2k (low) of the u64.    *)
(* Numeric order of u64 values is the lexicographic order of quad strings. *)
(***************************************************************************)
EXTENDS Naturals, Integers, Sequences

Quad == 0..3
W == 32
Zero32 == [k \in 1..W |-> 0]
IsQuads(q) == /\ DOMAIN q = 1..W
              /\ \A k \in 1..W : q[k] \in Quad

\* bit b (0 = least significant) of the value denoted by q
Bit(q, b) == LET k == W - (b \div 2)
             IN IF b % 2 = 1 THEN q[k] \div 2 ELSE q[k] % 2

\* first index where a and b differ, or 0
RECURSIVE FirstDiffFrom(_, _, _)
FirstDiffFrom(a, b, k) ==
  IF k > Len(a) \/ k > Len(b) THEN 0
  ELSE IF a[k] # b[k] THEN k ELSE FirstDiffFrom(a, b, k + 1)
FirstDiff(a, b) == FirstDiffFrom(a, b, 1)

\* strict numeric order on equal-length digit strings
Less(a, b) == LET k == FirstDiff(a, b) IN k # 0 /\ a[k] < b[k]
Leq(a, b) == a = b \/ Less(a, b)

SetQuad(q, k, v) == [q EXCEPT ![k] = v]

\* the 16 nibbles (hex digits) of a quad string, most significant first
Nibbles(q) == [j \in 1..16 |-> 4 * q[2 * j - 1] + q[2 * j]]
FromNibbles(nb) == [k \in 1..W |-> IF k % 2 = 1 THEN nb[(k + 1) \div 2] \div 4
                                              ELSE nb[k \div 2] % 4]

\* q + j * 4^(W-k)  (add j at quad position k, with carry), or "overflow"
RECURSIVE AddAt(_, _, _)
AddAt(q, k, j) ==
  IF j = 0 THEN q
  ELSE IF k = 0 THEN q   \* carry out of the top: wraps (u64 arithmetic), caller checks
  ELSE LET t == q[k] + j
       IN AddAt([q EXCEPT ![k] = t % 4], k - 1, t \div 4)

\* digit patterns used as structured samples
AllDigit(n, d) == [k \in 1..n |-> d]
Alternating(n, a, b) == [k \in 1..n |-> IF k % 2 = 1 THEN a ELSE b]
SingleDigit(n, pos, d) == [k \in 1..n |-> IF k = pos THEN d ELSE 0]
=============================================================================
