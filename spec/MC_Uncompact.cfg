SPECIFICATION Spec
CONSTANTS
  MaxLen = 2
  MaxTarget = 5
  DeepTargets = {27, 28, 29}
INVARIANTS ImplMeetsSpec Dump
CHECK_DEADLOCK FALSE
