SPECIFICATION Spec
CONSTANTS
  MaxLen = 2
  MaxTarget = 5
INVARIANTS ImplMeetsSpec Dump
CHECK_DEADLOCK FALSE
