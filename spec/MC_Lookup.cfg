SPECIFICATION Spec
CONSTANTS
  Cells = {"T", "n1", "n2", "far"}
  T = "T"
  NSamples = 5
INVARIANTS CorrectIffCovered OnlyFallbackCanBeWrong FallbackMeansUncovered DumpScenarios
CHECK_DEADLOCK FALSE
