----------------------------- MODULE MC_Hilbert -----------------------------
(***************************************************************************)
(* C17 / C12 on the transcribed curve: for every depth n in Depths, every  *)
(* orientation and every one of the 4^n positions,                         *)
(*   position -> anchor -> tile -> lattice triangle  lands in TriSet(n),   *)
(*   obeys the parity rule, and the discrete locate function TriToS maps   *)
(*   it back; since |TriSet(n)| = 4^n this is a bijection (no position     *)
(*   unused, no cell reached twice).  Parent/child tile configurations all *)
(*   lie in the 16-element set Configs16, which is already complete at     *)
(*   depth 2 (saturation).                                                 *)
(***************************************************************************)
EXTENDS A5Hilbert, TLC
CONSTANTS Depths
VARIABLES phase, n, p, o          \* p: digits chosen so far, most significant first
vars == <<phase, n, p, o>>
Init == phase = "start" /\ n = 0 /\ p = <<>> /\ o = "UV"
PickN == phase = "start" /\ \E x \in Depths : n' = x /\ phase' = "n" /\ UNCHANGED <<p, o>>
PickO == phase = "n" /\ \E x \in Orientations : o' = x /\ phase' = "digits" /\ UNCHANGED <<p, n>>
PickDigit == /\ phase = "digits" /\ Len(p) < n
             /\ \E h \in 0..3 : p' = Append(p, h)
             /\ phase' = IF Len(p) + 1 = n THEN "d" ELSE "digits"
             /\ UNCHANGED <<o, n>>
Next == PickN \/ PickO \/ PickDigit
Spec == Init /\ [][Next]_vars
d == [x \in 0..(n - 1) |-> p[n - x]]

Bijection ==
  phase = "d" =>
    LET t == Tile(Anchor(d, n, o))  tr == TriOf(t)
    IN ParityOK(t) /\ InTriSet(tr, n) /\ TriToS(tr, n, o) = d
TriCount == phase = "n" /\ n <= 6 => Cardinality(TriSet(n)) = 4 ^ n

RelClosed == phase = "d" => \A c \in 0..3 : Rel(d, n, o, c) \in Configs16
\* NOTE (checked with TLC, kept as a remark): the lattice triangle of a child is in general NOT one of the four
\* sub-triangles of its parent's triangle -- the PATTERN shifts move children into neighbouring positions -- so
\* bijectivity at depth n+1 does not follow from depth n by simple nesting; it is checked depth by depth.

\* transducer view: every configuration that ANY local state can produce is one of the sixteen
LocalClosed == phase = "start" => LocalRelSet \subseteq Configs16
\* (a) the configuration of every explored parent/child pair is the one its local state predicts
Locality == phase = "d" =>
  \A c \in 0..3 : LET st == LocalStateOf(d, n, o)
                   IN LocalRel(st.fl, st.pk, IF st.rev THEN 3 - c ELSE c, o) = Rel(d, n, o, c)
ShowLocal == phase = "start" => PrintT(<<"LOCAL", Cardinality(LocalRelSet), LocalRelSet \ Configs16>>)

RelSetAt(m) == {Rel(x, m, oo, c) : x \in [0..m - 1 -> 0..3], oo \in Orientations, c \in 0..3}
RelSaturated == phase = "start" => RelSetAt(2) = Configs16 /\ RelSetAt(3) = Configs16 /\ Cardinality(Configs16) = 16
\* the children of a tile are a function of the tile type alone: four placements per type
FourPerType == phase = "start" =>
  \A a \in BOOLEAN : \A b \in BOOLEAN : Cardinality({c \in Configs16 : c[1] = a /\ c[2] = b}) = 4
=============================================================================
