SPECIFICATION Spec
CONSTANTS
  Variant = "v062"
  Family = "faces"
  Size = "quick"
INVARIANTS SortedAtPassStart
CHECK_DEADLOCK FALSE
