SPECIFICATION Spec
CONSTANTS
  Variant = "resorted"
  Family = "subsets"
  Size = "thorough"
INVARIANTS CoverPreserved NoDuplicates MaximalAtEnd CanonicalAtEnd FixedPoint CanonCharacterisesCover Terminates Dump
CHECK_DEADLOCK FALSE
