--------------------------- MODULE MC_LookupSteps ---------------------------
(***************************************************************************)
(* Design-level machine of the search loop over a small universe: the      *)
(* estimate of each sample and its containment value are chosen            *)
(* nondeterministically; `log` is what a recorded call holds.  TLC checks  *)
(* the design properties of the loop and prints complete logs that the     *)
(* harness cannot produce itself (it cannot steer the estimates) -- they   *)
(* are folded through the same Step by Trace.tla as self-test scenarios.   *)
(***************************************************************************)
EXTENDS A5LookupSteps, Integers, TLC, Json
CONSTANTS CellIds, Values, N        \* N samples instead of 26 in the model
VARIABLES st, log
vars == <<st, log>>
MCCellIds == {<<1>>, <<2>>, <<3>>}
MCValues == {-2, -1, 1}

MInit == st = S0 /\ log = <<>>
MStep ==
  /\ st.result = NoneId /\ st.k < N
  /\ \E c \in CellIds :
       IF InSeq(st.seen, c)
         THEN LET ev == [id |-> c, dup |-> TRUE, pos |-> FALSE, rank |-> 0]
              IN st' = StepN(st, ev, N) /\ log' = Append(log, ev)
         ELSE \E v \in Values :
              LET ev == [id |-> c, dup |-> FALSE, pos |-> v > 0, rank |-> v]      \* value for now, ranked by MFinish
              IN st' = StepN(st, ev, N) /\ log' = Append(log, ev)
\* values are small integers (greater = nearer to containing); rank = number of greater values + earlier equals
MRank(tested, i) == Cardinality({j \in 1..Len(tested) : tested[j].rank > tested[i].rank
                                                      \/ (tested[j].rank = tested[i].rank /\ j < i)})
Ranked(tested) == [i \in 1..Len(tested) |-> [id |-> tested[i].id, rank |-> MRank(tested, i)]]
MFinish ==
  /\ st.result = NoneId /\ st.k = N /\ st.branch = 0
  /\ st' = FinishN([st EXCEPT !.tested = Ranked(@)], N)
  /\ UNCHANGED log
MNext == MStep \/ MFinish
MSpec == MInit /\ [][MNext]_vars

Done == st.result # NoneId
NeverBad == ~st.bad
TestedOnce == \A i, j \in 1..Len(st.seen) : i # j => st.seen[i] # st.seen[j]
HitIsFirstPositive ==
  (Done /\ st.branch \in {2, 3}) =>
     /\ \E i \in 1..Len(log) : log[i].id = st.result /\ ~log[i].dup /\ log[i].pos /\ i = Len(log)
     /\ \A i \in 1..Len(log) : (~log[i].dup /\ log[i].pos) => log[i].id = st.result
FallbackIsBest ==
  (Done /\ st.branch = 4) =>
     /\ Len(log) = N
     /\ \A i \in 1..Len(log) : ~(~log[i].dup /\ log[i].pos)                \* nothing contained the point
     /\ \A i \in 1..Len(st.tested) : (st.tested[i].rank = 0) <=> (st.tested[i].id = st.result)
BranchMeaning == Done => ((st.branch = 2) <=> (st.sample = 0)) /\ ((st.branch = 4) <=> (st.sample = 255))
EstimatesBound == Len(st.seen) <= st.k /\ st.k <= N /\ Len(st.seen) = Cardinality({log[i].id : i \in 1..Len(log)})
=============================================================================
