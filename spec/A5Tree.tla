------------------------------ MODULE A5Tree ------------------------------
(***************************************************************************)
(* The cell hierarchy: world -> 12 faces -> 5 quintants -> 4 -> 4 -> ...   *)
(* on cell descriptions (A5Ids), and on quad strings directly.             *)
(***************************************************************************)
EXTENDS A5Ids

FanOut(res) == IF res = -1 THEN 12 ELSE IF res = 0 THEN 5 ELSE 4   \* children of a res-cell

Parent(c) ==
  IF c.res = 0 THEN World
  ELSE IF c.res = 1 THEN [res |-> 0, face |-> c.face, seg |-> 0, s |-> <<>>]
  ELSE IF c.res = 2 THEN [res |-> 1, face |-> c.face, seg |-> c.seg, s |-> <<>>]
  ELSE [res |-> c.res - 1, face |-> c.face, seg |-> c.seg, s |-> SubSeq(c.s, 1, c.res - 2)]

\* ancestor of c at resolution r (-1 <= r <= c.res)
Anc(c, r) ==
  IF r = c.res THEN c
  ELSE IF r = -1 THEN World
  ELSE IF r = 0 THEN [res |-> 0, face |-> c.face, seg |-> 0, s |-> <<>>]
  ELSE [res |-> r, face |-> c.face, seg |-> c.seg, s |-> SubSeq(c.s, 1, H(r))]

ChildrenOf(c) ==   \* direct children, as a set
  IF c.res = -1 THEN {[res |-> 0, face |-> f, seg |-> 0, s |-> <<>>] : f \in 0..11}
  ELSE IF c.res = 0 THEN {[res |-> 1, face |-> c.face, seg |-> g, s |-> <<>>] : g \in 0..4}
  ELSE {[res |-> c.res + 1, face |-> c.face, seg |-> c.seg, s |-> Append(c.s, d)] : d \in Quad}

RECURSIVE Desc(_, _)
Desc(c, r) == IF r = c.res THEN {c}
              ELSE UNION {Desc(k, r) : k \in ChildrenOf(c)}

\* number of descendants at r2 of a cell at r1 (r1 <= r2), as << mantissa, exponent of 4 >>
NumDesc(r1, r2) ==
  IF r1 = r2 THEN <<1, 0>>
  ELSE LET m == (IF r1 = -1 THEN 12 ELSE 1) * (IF r1 <= 0 /\ r2 >= 1 THEN 5 ELSE 1)
           lo == IF r1 < 1 THEN 1 ELSE r1
           e == IF r2 > lo THEN r2 - lo ELSE 0
       IN <<m, e>>
Pow4(e) == 4 ^ e
NumDescInt(r1, r2) == LET n == NumDesc(r1, r2) IN n[1] * Pow4(n[2])   \* only when it fits (e <= 13)

\* number of cells at a resolution as << mantissa, exp4 >>
NumCells(r) == IF r = 0 THEN <<12, 0>> ELSE <<60, r - 1>>

(***************************************************************************)
(* The same hierarchy read directly off quad strings (canonical IDs):      *)
(* an ancestor's ID is obtained by truncating the digit field and moving   *)
(* the marker.  Used where trace events carry only IDs.                    *)
(***************************************************************************)
AncId(q, r) == Encode(Anc(Decode(q).cell, r))

\* q is a canonical ID whose ancestor at res(p) is p   (p canonical)
IsDescId(q, p) ==
  LET cq == Decode(q).cell  cp == Decode(p).cell
  IN cp.res <= cq.res /\ Anc(cq, cp.res) = cp
=============================================================================
