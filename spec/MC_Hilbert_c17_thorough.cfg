SPECIFICATION Spec
CONSTANTS Depths = {1,2,3,4,5,6,7,8,9}
INVARIANTS Bijection TriCount
CHECK_DEADLOCK FALSE
