------------------------------ MODULE MC_Tree ------------------------------
(***************************************************************************)
(* Laws of the cell hierarchy (C07) on the real constants 12 / 5 / 4,      *)
(* exhaustively for every cell up to MaxR and every target up to MaxT.     *)
(* These are theorems of the specification: they validate the relations    *)
(* that Trace.tla applies to the implementation's answers.                 *)
(***************************************************************************)
EXTENDS A5Tree, TLC

CONSTANTS MaxR, MaxT

VARIABLES phase, c
vars == <<phase, c>>

CellsAt(res) ==
  IF res = -1 THEN {World}
  ELSE IF res = 0 THEN {[res |-> 0, face |-> f, seg |-> 0, s |-> <<>>] : f \in 0..11}
  ELSE {[res |-> res, face |-> f, seg |-> g, s |-> d] : f \in 0..11, g \in 0..4, d \in [1..H(res) -> Quad]}

Init == phase = "start" /\ c = World
PickRes == phase = "start" /\ \E r \in -1..MaxR : phase' = "res" /\ c' = [World EXCEPT !.res = r]
PickFace == phase = "res" /\ \E f \in 0..11 : c' = [c EXCEPT !.face = f] /\ phase' = "face"
PickCell == phase = "face" /\ \E x \in {y \in CellsAt(c.res) : y.face = c.face \/ c.res = -1} : c' = x /\ phase' = "cell"
Next == PickRes \/ PickFace \/ PickCell
Spec == Init /\ [][Next]_vars

Targets == c.res..(IF c.res + 3 < MaxT THEN c.res + 3 ELSE MaxT)

ChildrenLaw ==
  phase = "cell" =>
    \A t \in Targets :
      LET D == Desc(c, t) IN
        /\ Cardinality(D) = NumDescInt(c.res, t)
        /\ \A x \in D : IsCell(x) /\ x.res = t /\ Anc(x, c.res) = c
        /\ Cardinality({Encode(x) : x \in D}) = Cardinality(D)

AncestorCompose ==
  phase = "cell" =>
    \A a \in -1..c.res : \A b \in -1..a : Anc(Anc(c, a), b) = Anc(c, b)

ChildrenCompose ==
  phase = "cell" =>
    \A m \in Targets : \A t \in m..(IF m + 1 < MaxT THEN m + 1 ELSE MaxT) :
      t \in Targets => UNION {Desc(k, t) : k \in Desc(c, m)} = Desc(c, t)

ParentIsAnc ==
  phase = "cell" /\ c.res >= 0 => Parent(c) = Anc(c, c.res - 1) /\ c \in ChildrenOf(Parent(c))

\* children of all cells of a level enumerate the next level exactly once
Partition ==
  phase = "res" /\ c.res < MaxR =>
    LET L == CellsAt(c.res) IN
      /\ UNION {ChildrenOf(x) : x \in L} = CellsAt(c.res + 1)
      /\ Cardinality(CellsAt(c.res + 1)) = Cardinality(L) * FanOut(c.res)
      /\ LET n == NumCells(c.res + 1) IN Cardinality(CellsAt(c.res + 1)) = n[1] * Pow4(n[2])

\* the hierarchy read off IDs agrees with the hierarchy on descriptions
IdTree ==
  phase = "cell" =>
    \A a \in -1..c.res : AncId(Encode(c), a) = Encode(Anc(c, a)) /\ IsDescId(Encode(c), Encode(Anc(c, a)))
=============================================================================
