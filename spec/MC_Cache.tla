------------------------------ MODULE MC_Cache ------------------------------
EXTENDS A5Cache, Json
K(o, i, r) == [origin |-> o, idx |-> i, refl |-> r]
KeysSmall == {K(0, 3, FALSE), K(0, 3, TRUE), K(1, 3, FALSE), K(1, 3, TRUE), K(1, 4, TRUE)}
Done == \A t \in Threads : pc[t] = "idle" /\ ncalls[t] = MaxCalls
\* observation variable hist is not part of the state identity for exploration purposes
View == <<face, sph, once, pc, cur, got, ncalls>>
Dump == Done => PrintT("REPLAY " \o ToJson([kind |-> "history",
           calls |-> [i \in 1..Len(hist) |-> [t |-> hist[i][1], origin |-> hist[i][2].origin, idx |-> hist[i][2].idx, refl |-> hist[i][2].refl]]]))
=============================================================================
