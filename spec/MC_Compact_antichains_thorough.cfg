SPECIFICATION Spec
CONSTANTS
  Variant = "resorted"
  Family = "antichains"
  Size = "thorough"
INVARIANTS CoverPreserved NoDuplicates MaximalAtEnd CanonicalAtEnd FixedPoint CanonCharacterisesCover Terminates Dump
CHECK_DEADLOCK FALSE
