SPECIFICATION Spec
INVARIANTS UnwrapLaws
CHECK_DEADLOCK FALSE
