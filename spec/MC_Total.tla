------------------------------ MODULE MC_Total ------------------------------
(***************************************************************************)
(* C14: the test plan for totality.  All 2^64 bit patterns fall into       *)
(* finitely many classes (which scanned bit is set first, validity of the  *)
(* top six bits, kinds of garbage); resolutions and coordinates likewise.  *)
(* TLC enumerates function x ID class x resolution class x coordinate      *)
(* class, checks that the property's demand (A5Api!Demand) is well         *)
(* defined and sensible on every class, and dumps one REPLAY line per      *)
(* transition: the implementation test to run in a child process.          *)
(***************************************************************************)
EXTENDS A5Api, Json

VARIABLES fn, id, r, dflt, coord, phase
vars == <<fn, id, r, dflt, coord, phase>>

Cell(res, f, g, dig) == [res |-> res, face |-> f, seg |-> g, s |-> dig]
Canon1(res) == Encode(Cell(res, IF res = -1 THEN 0 ELSE 7, IF res <= 0 THEN 0 ELSE 3, AllDigit(H(res), IF res % 2 = 0 THEN 3 ELSE 1)))
Canon2(res) == Encode(Cell(res, IF res = -1 THEN 0 ELSE 11, IF res <= 0 THEN 0 ELSE 0, Alternating(H(res), 2, 0)))
ResReps == {-1, 0, 1, 2, 3, 15, 28, 29}

\* garbage variants of a canonical ID
LowBitInMarker(q, res) == IF res >= 2 THEN SetQuad(q, 4 + H(res), 3) ELSE SetQuad(q, 4, 3)
Bit0(q) == SetQuad(q, 32, IF q[32] = 0 THEN 1 ELSE 3)
EvenBitsBelow(q, res) == IF res \in 0..27 THEN SetQuad(q, 31, 1) ELSE q
TopInvalid(q, v) == LET t == Top6(v) IN [k \in 1..W |-> IF k <= 3 THEN t[k] ELSE q[k]]
WorldAliases == {SetQuad(Zero32, 32, 1), SetQuad(Zero32, 3, 1), [k \in 1..W |-> IF k <= 3 THEN 3 ELSE 0],
                 [k \in 1..W |-> IF k >= 5 /\ k <= 31 THEN 1 ELSE 0], SetQuad(Zero32, 20, 1)}

IdReps ==
  UNION {{Canon1(res), Canon2(res)} : res \in ResReps}
  \cup {LowBitInMarker(Canon1(res), res) : res \in ResReps \ {-1}}
  \cup {Bit0(Canon1(res)) : res \in ResReps \ {-1, 29}}
  \cup {EvenBitsBelow(Canon2(res), res) : res \in {0, 2, 15}}
  \cup {TopInvalid(Canon1(res), v) : res \in {1, 2, 15, 29}, v \in {60, 63}}
  \cup {TopInvalid(Canon1(0), v) : v \in {12, 59, 60, 63}}
  \cup WorldAliases
  \cup {[k \in 1..W |-> 3], [k \in 1..W |-> 2], [k \in 1..W |-> 1]}

ResClasses == {-2147483647 - 1, -1000, -2, -1, 0, 1, 2, 15, 28, 29, 30, 31, 32, 1000, 2147483647}
CoordClasses == {"generic", "pole_n", "pole_s", "antimeridian", "lon540", "lon_huge", "lon_tiny", "lat_out", "lat_huge"}
CoordOK(c) == c \notin {"lat_out", "lat_huge"}

IdFns == {"get_resolution", "cell_to_lonlat", "cell_to_boundary", "u64_to_hex"}
IdResFns == {"cell_to_parent", "cell_to_children", "uncompact"}

Init == fn = "none" /\ id = Zero32 /\ r = 0 /\ dflt = FALSE /\ coord = "generic" /\ phase = "start"
CallId == /\ phase = "start"
          /\ \E f \in IdFns : \E q \in IdReps : fn' = f /\ id' = q /\ phase' = "call" /\ UNCHANGED <<r, dflt, coord>>
PickId == phase = "start" /\ \E q \in IdReps : id' = q /\ phase' = "id" /\ UNCHANGED <<fn, r, dflt, coord>>
CallIdRes == /\ phase = "id"
             /\ \E f \in IdResFns : \E x \in ResClasses :
                  fn' = f /\ r' = x /\ dflt' = FALSE /\ phase' = "call" /\ UNCHANGED <<id, coord>>
CallIdDflt == /\ phase = "id"
              /\ \E f \in {"cell_to_parent", "cell_to_children", "compact"} :
                   fn' = f /\ dflt' = TRUE /\ phase' = "call" /\ UNCHANGED <<id, r, coord>>
CallRes == /\ phase = "start"
           /\ \E f \in {"cell_area", "get_num_cells"} : \E x \in ResClasses :
                fn' = f /\ r' = x /\ phase' = "call" /\ UNCHANGED <<id, dflt, coord>>
CallLookup == /\ phase = "start"
              /\ \E c \in CoordClasses : \E x \in ResClasses :
                   fn' = "lonlat_to_cell" /\ coord' = c /\ r' = x /\ phase' = "call" /\ UNCHANGED <<id, dflt>>
CallRes0 == phase = "start" /\ fn' = "get_res0_cells" /\ phase' = "call" /\ UNCHANGED <<id, r, dflt, coord>>
Next == CallId \/ PickId \/ CallIdRes \/ CallIdDflt \/ CallRes \/ CallLookup \/ CallRes0
Spec == Init /\ [][Next]_vars

---------------------------------------------------------------------------
\* fan-out of the honest answer (calls beyond 4^8 cells are out of the property's scope)
Fan == IF fn \in {"cell_to_children", "uncompact"} /\ IdStatus(id) # "invalid"
         THEN LET res == ResOf(id)  t == IF dflt THEN res + 1 ELSE r
              IN IF t >= res /\ t <= MaxRes THEN NumDesc(res, t) ELSE <<1, 0>>
         ELSE <<1, 0>>
InScope == Fan[2] <= 8 /\ (Fan[2] < 8 \/ Fan[1] = 1)

D == Demand(fn, <<id>>, r, dflt, CoordOK(coord))
DemandTotal == phase = "call" => D \in {"ok", "err", "either"}
\* sanity of the demand: canonical cells with in-range targets must succeed; impossible requests must fail
DemandSane ==
  phase = "call" =>
    /\ (fn = "cell_to_parent" /\ ~dflt /\ Canonical(id) /\ r >= -1 /\ r <= ResOf(id)) => D = "ok"
    /\ (fn = "cell_to_children" /\ ~dflt /\ Canonical(id) /\ r >= ResOf(id) /\ r <= MaxRes) => D = "ok"
    /\ (fn \in IdResFns /\ ~dflt /\ ~InRange(r)) => D = "err"
    /\ (fn = "lonlat_to_cell" /\ ~InRange(r)) => D = "err"
    /\ (fn \in {"cell_to_lonlat", "cell_to_boundary"} /\ ~Decode(id).ok) => D = "err"
    /\ (IdStatus(id) = "alias" => Canonical(Canon(id)) /\ Canon(id) # id)
\* the classification really partitions: every representative has exactly one status, all three occur
ClassesCovered ==
  phase = "start" => {IdStatus(q) : q \in IdReps} = {"canonical", "alias", "invalid"}
                     /\ \E q \in IdReps : Classify(q).worldAlias

Dump == (phase = "call" /\ InScope) =>
  PrintT("REPLAY " \o ToJson([kind |-> "call", fn |-> fn, id |-> id, r |-> r, dflt |-> dflt, coord |-> coord,
                              status |-> IdStatus(id), canon |-> IF Decode(id).ok THEN Canon(id) ELSE Zero32, demand |-> D]))
=============================================================================
