------------------------------ MODULE MC_Lookup ------------------------------
(* A5Lookup with a small neighbourhood, plus the enumeration of the structural scenario classes that *)
(* the harness instantiates with real points (C01) and real cells (C11).                              *)
EXTENDS A5Lookup, Json
ResClasses == << <<0, 0>>, <<1, 1>>, <<2, 2>>, <<3, 5>>, <<6, 15>>, <<16, 24>>, <<25, 29>> >>
LookupLocs == {"uniform", "pole", "polar_cap", "antimeridian", "lon_alias", "seam", "face_vertex"}
RingLocs == {"generic", "antimeridian", "theta_seam", "pole", "pole_adjacent", "face_vertex"}
RingNs == {0, 1, 2, 3, 7, 16, 64}      \* 0 = the resolution-dependent default
DumpScenarios ==
  (k = 0 /\ seen = <<>>) =>
    /\ \A i \in 1..Len(ResClasses) : \A l \in LookupLocs :
         PrintT("REPLAY " \o ToJson([kind |-> "lookupscenario", rlo |-> ResClasses[i][1], rhi |-> ResClasses[i][2], loc |-> l]))
    /\ \A i \in 1..Len(ResClasses) : \A l \in RingLocs : \A n \in RingNs : \A cl \in BOOLEAN :
         PrintT("REPLAY " \o ToJson([kind |-> "ringscenario", rlo |-> ResClasses[i][1], rhi |-> ResClasses[i][2], loc |-> l, n |-> n, closed |-> cl]))
=============================================================================
