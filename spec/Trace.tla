------------------------------- MODULE Trace -------------------------------
(***************************************************************************)
(* Trace specification: validates ND-JSON traces recorded from the real    *)
(* a5-rs library against the relations of A5Api.  One state per event;     *)
(* variable l is the next line, st the facts accumulated so far.  TLC      *)
(* stops extending the behaviour at the first event no action accepts;     *)
(* the POSTCONDITION then reports the length of the matched prefix.        *)
(***************************************************************************)
EXTENDS A5Api, Json, IOUtils

Rec == ndJsonDeserialize(IOEnv.TRACE)

VARIABLES l, st
vars == <<l, st>>

StInit == [last |-> <<>>, count |-> 0, run |-> RunInit, lastKey |-> <<>>, cfgs |-> {}, ptypes |-> {}, threads |-> <<>>, mesh |-> MeshInit]

TraceInit == l = 1 /\ st = StInit

IsEvent(op) == l <= Len(Rec) /\ Rec[l].op = op /\ l' = l + 1
E == Rec[l]

\* A rejected event is reported and skipped, so that the rest of the trace is still examined;
\* the run is accepted only if no REJECT line was printed (bin/check reads them).
Judge(ok) == IF ok THEN TRUE ELSE PrintT("REJECT line=" \o ToString(l) \o " op=" \o E.op)
Stateless(op, ok) == IsEvent(op) /\ Judge(ok) /\ UNCHANGED st

Reset      == IsEvent("reset") /\ st' = StInit
\* the harness process died inside an announced call of the library (bin/check turns the announcement into this event)
Crashed    == Stateless("crashed", FALSE)
Codec      == Stateless("codec", CodecOK(E))
DecodeEv   == Stateless("decode", DecodeOK(E))
HexFmtEv   == Stateless("hexfmt", HexFmtOK(E))
CanonOut   == Stateless("canonout", CanonOutOK(E))
HexParseEv == Stateless("hexparse", HexParseOK(E))

Advance(ids) == [st EXCEPT !.last = IF Len(ids) > 0 THEN ids[Len(ids)] ELSE st.last,
                           !.count = st.count + Len(ids)]
SortedBlock == /\ IsEvent("sorted")
               /\ LET ok == SortedBlockOK(E, st.last) IN Judge(ok) /\ st' = IF ok THEN Advance(E.ids) ELSE st
AncPair    == Stateless("ancpair", AncPairOK(E))
RunBlock   == /\ IsEvent("run")
              /\ LET f == RunFold(E.entries, 1, st.run) IN Judge(f[1]) /\ st' = [st EXCEPT !.run = f[2]]

Children   == Stateless("children", ChildrenOK(E))
ParentComp == Stateless("parentcomp", ParentComposeOK(E))
ChildrenBig == Stateless("childrenbig", ChildrenBigOK(E))
Ancestors  == Stateless("ancestors", AncestorsOK(E))
ChildComp  == Stateless("childcomp", ChildrenComposeOK(E))
LevelBlock == /\ IsEvent("level")
              /\ LET ok == LevelBlockOK(E, st.last) IN Judge(ok) /\ st' = IF ok THEN Advance(E.ids) ELSE st
LevelEnd   == IsEvent("levelend") /\ Judge(LevelEndOK(E, st.count)) /\ st' = StInit

Uncompact  == Stateless("uncompact", UncompactOK(E))
WorldEv    == Stateless("world", WorldOK(E))

Compact8   == Stateless("compact8", Compact8OK(E))
Compact10  == Stateless("compact10", Compact10OK(E))
CompactPair == Stateless("compactpair", CompactPairOK(E))
BigCompact == Stateless("bigcompact", BigCompactOK(E))

AdvanceKeys(xs) == [st EXCEPT !.lastKey = IF Len(xs) > 0 THEN TriKey(xs[Len(xs)].tri) ELSE st.lastKey,
                              !.count = st.count + Len(xs)]
Anchors    == /\ IsEvent("anchors")
              /\ LET ok == AnchorsOK(E, st.lastKey) /\ Drift(AnchorsPinned(E), "anchors differ from the v0.6.2 walk")
                 IN Judge(ok) /\ st' = IF ok /\ E.sorted THEN AdvanceKeys(E.entries) ELSE st
AnchorsPin == /\ IsEvent("anchorspin")
              /\ LET ok == AnchorsOK(E, st.lastKey) /\ AnchorsPinned(E)
                 IN Judge(ok) /\ st' = IF ok /\ E.sorted THEN AdvanceKeys(E.entries) ELSE st
AnchorsEnd == IsEvent("anchorsend") /\ Judge(AnchorsEndOK(E, st.count)) /\ st' = StInit
RelConfig  == Stateless("relconfig", RelConfigOK(E))
RelFact    == /\ IsEvent("relfact")
              /\ LET ok == RelFactOK(E) IN Judge(ok) /\ st' = IF ok THEN [st EXCEPT !.cfgs = @ \cup {CfgTuple(E.cfg)}] ELSE st
CoverFact  == /\ IsEvent("coverfact")
              /\ LET ok == CoverFactOK(E) IN Judge(ok) /\ st' = IF ok THEN [st EXCEPT !.ptypes = @ \cup {<<E.ptype[1], E.ptype[2]>>}] ELSE st
RelEnd     == IsEvent("relend") /\ Judge(st.cfgs = Configs16 /\ st.ptypes = AllTileTypes) /\ st' = StInit
ChildGeom  == Stateless("childgeom", ChildGeomOK(E))
QuintMap   == Stateless("quintmap", QuintMapOK(E) /\ Drift(QuintMapPinOK(E), "relabelling differs from v0.6.2"))
QuintMapPin == Stateless("quintmappin", QuintMapOK(E) /\ QuintMapPinOK(E))

Call       == Stateless("call", CallOK(E))

\* st.threads: sequence (indexed by model thread number) of <<>> or [inst, face, sph]
ThreadInfo(k) == IF k <= Len(st.threads) THEN st.threads[k] ELSE <<>>
OtherInsts(k) == {st.threads[j].inst : j \in {i \in 1..Len(st.threads) : i # k /\ st.threads[i] # <<>>}}
SetThread(k, v) == [j \in 1..(IF k > Len(st.threads) THEN k ELSE Len(st.threads)) |-> IF j = k THEN v ELSE ThreadInfo(j)]
ProjStep   == /\ IsEvent("projstep")
              /\ LET ok == ProjStepOK(E, ThreadInfo(E.thread), OtherInsts(E.thread))
                 IN /\ Judge(ok)
                    /\ st' = [st EXCEPT !.threads = SetThread(E.thread, [inst |-> E.instance_after, face |-> SetOfSeq(E.face_after),
                                                                         sph |-> SetOfSeq(E.sph_after)])]
Pair       == Stateless("pair", PairOK(E))
Purity     == Stateless("purity", PurityOK(E))
Instances  == Stateless("instances", InstancesOK(E))

Lookup     == Stateless("lookup", LookupOK(E))
LookupSteps == Stateless("lookupsteps", LookupStepsOK(E))
Interior1  == Stateless("interior1", Interior1OK(E))
Interior2  == Stateless("interior2", Interior2OK(E))
Centre     == Stateless("centre", CentreOK(E))
Owners     == Stateless("owners", OwnersOK(E))
LocalMesh  == Stateless("localmesh", LocalMeshOK(E))
MeshCells  == /\ IsEvent("meshcells")
              /\ LET r == MeshCellsResult(E, st.mesh)
                     ok == r[1] /\ MeshCellsShapeOK(E)
                 IN Judge(ok) /\ st' = [st EXCEPT !.mesh = r[2]]
MeshEnd    == IsEvent("meshend") /\ Judge(MeshEndOK(E, st.mesh)) /\ st' = StInit
Area       == Stateless("area", AreaOK(E))
AreaMeta   == Stateless("areameta", AreaMetaOK(E))
Boundary   == Stateless("boundary", BoundaryOK(E))
UnwrapEv   == Stateless("unwrap", UnwrapOK(E))

FaceCentre == Stateless("facecentre", FaceCentreOK(E))
FaceAngle  == Stateless("faceangle", FaceAngleOK(E))
Nearest    == Stateless("nearest", NearestOK(E))
FrameCells == /\ IsEvent("framecells")
              /\ LET r == AddCells(E.cells, 1, st.mesh)
                     ok == r[1] /\ FrameCellsShapeOK(E)
                 IN Judge(ok) /\ st' = [st EXCEPT !.mesh = r[2]]
FrameEnd   == IsEvent("frameend") /\ Judge(FrameEndOK(E, st.mesh)) /\ st' = StInit
Reflected  == Stateless("reflected", ReflectedOK(E))
Sector     == Stateless("sector", SectorOK(E))
GoldenGeom == Stateless("goldengeom", GoldenGeomOK(E))
GoldenLookup == Stateless("goldenlookup", GoldenLookupOK(E))

TraceNext ==
  \/ Reset \/ Crashed \/ Codec \/ DecodeEv \/ HexFmtEv \/ HexParseEv \/ CanonOut
  \/ SortedBlock \/ AncPair \/ RunBlock
  \/ Children \/ ChildrenBig \/ Ancestors \/ ParentComp \/ ChildComp \/ LevelBlock \/ LevelEnd
  \/ Uncompact \/ WorldEv \/ Compact8 \/ Compact10 \/ CompactPair \/ BigCompact
  \/ Anchors \/ AnchorsPin \/ AnchorsEnd \/ RelConfig \/ RelFact \/ CoverFact \/ RelEnd \/ ChildGeom
  \/ QuintMap \/ QuintMapPin \/ Call
  \/ ProjStep \/ Pair \/ Purity \/ Instances
  \/ FaceCentre \/ FaceAngle \/ Nearest \/ FrameCells \/ FrameEnd \/ Reflected \/ Sector \/ GoldenGeom \/ GoldenLookup
  \/ Lookup \/ LookupSteps \/ Interior1 \/ Interior2 \/ Centre \/ Owners \/ LocalMesh \/ MeshCells \/ MeshEnd \/ Area \/ AreaMeta \/ Boundary \/ UnwrapEv

TraceSpec == TraceInit /\ [][TraceNext]_vars

\* every line must have been consumed (the diameter counts the initial state too)
Matched == TLCGet("stats").diameter - 1
TraceAccepted ==
  IF Matched >= Len(Rec) THEN PrintT("TRACE_ACCEPTED " \o ToString(Len(Rec)))
  ELSE /\ PrintT("TRACE_STOPPED line=" \o ToString(Matched + 1) \o " op=" \o Rec[Matched + 1].op)
       /\ FALSE
=============================================================================
