SPECIFICATION Spec
CONSTANTS
  Variant = "resorted"
  Family = "deep"
  Size = "quick"
INVARIANTS CoverPreserved NoDuplicates MaximalAtEnd CanonicalAtEnd FixedPoint CanonCharacterisesCover Terminates Dump
CHECK_DEADLOCK FALSE
