SPECIFICATION Spec
CONSTANTS Depths = {10}
INVARIANTS Bijection
CHECK_DEADLOCK FALSE
