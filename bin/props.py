"""Per-property verification plans used by bin/check."""
import os, json

# events whose acceptance does not depend on earlier events (replay slice = the event alone)
STATELESS_OPS = {'codec', 'decode', 'hexfmt', 'hexparse', 'canonout', 'ancpair', 'children', 'parentcomp', 'childcomp', 'uncompact',
                 'compact', 'anchors', 'relconfig', 'quintmap', 'call', 'lookup', 'lookupsteps', 'boundary'}


def match_known(kf, ev):
    """Does rejected event `ev` fall under known finding `kf`?  Matchers are specific on purpose:
    a different failure of the same property is still a violation."""
    if ev is None:
        return False
    m = kf.get('match', {})
    if m.get('op') and ev.get('op') != m['op']:
        return False
    for field, val in m.get('equals', {}).items():
        if ev.get(field) != val:
            return False
    for field, vals in m.get('in', {}).items():
        if ev.get(field) not in vals:
            return False
    return True


def signature(ev):
    """short description of a rejected event, for the summary table printed with violations"""
    if ev is None:
        return '?'
    keys = ['op', 'fn', 'outcome', 'profile', 'r', 'dflt', 'coord', 'n', 'o', 'res', 'target', 'branch', 'kind']
    parts = ['%s=%s' % (k, ev[k]) for k in keys if k in ev and not isinstance(ev[k], (list, dict))]
    if 'msg' in ev and ev['msg']:
        parts.append('msg=%s' % str(ev['msg'])[:50])
    return ' '.join(parts)


def write_replay_inputs(ctx, replay, name='mc_replay.ndjson'):
    p = os.path.join(ctx['work'], name)
    with open(p, 'w') as f:
        for r in replay:
            f.write(json.dumps(r) + '\n')
    return p


def standard(ctx, mcs, gen_kv=None, release=False, **meta):
    """MC instances -> replay inputs -> harness gen -> TLC trace validation."""
    tier = ctx['tier']
    binary = ctx['build_harness'](release)
    mc_results, replay = [], []
    for spec in mcs:
        if spec.get('tier', 'quick') == 'thorough' and tier != 'thorough':
            continue
        cfg = spec.get('cfg') or spec['module']
        if tier == 'thorough' and os.path.exists(os.path.join(os.path.dirname(os.path.dirname(os.path.abspath(__file__))), 'spec', cfg + '_thorough.cfg')):
            cfg = cfg + '_thorough'
        r, rp = ctx['run_mc'](ctx['prop'], spec['module'], cfg=cfg,
                              workers=spec.get('workers', 8), timeout=spec.get('timeout', 1500), expect=spec.get('expect', 'ok'),
                              coverage=spec.get('coverage', True))
        mc_results.append(r)
        replay.extend(rp)
    kv = dict(gen_kv or {})
    if replay:
        kv['mc'] = write_replay_inputs(ctx, replay)
    summary = ctx['run_gen'](binary, ctx['prop'], tier, ctx['seed'], os.path.join(ctx['work'], 'traces'), kv)
    tv = ctx['validate'](ctx['prop'], summary['files'], par=meta.pop('par', 12))
    out = dict(mc=mc_results, summary=summary, tv=tv)
    out.update(meta)
    return out


def plan_c05(ctx):
    r = standard(ctx, [dict(module='MC_Ids')],
                 rule='cells: every (face,quintant,position) for res<=5 (quick) / <=8 (thorough), every face x quintant x digit '
                      'pattern (all-0, all-d, alternating, single digit, random) for deeper res; IDs: layout-built for every 6-bit top '
                      'value; hex: boundaries, single bits, cell patterns, random values, hostile strings. distinct_nontrivial = '
                      'codec events with res>=2 (curve digits present) + hexparse strings',
                 assumptions=['the documented bit layout is as transcribed in spec/A5Ids.tla (DocLayout)',
                              'TLC evaluates the relations of spec/A5Api.tla correctly'])
    s = r['summary']
    r['distinct_nontrivial'] = int(s.get('codec', 0)) - 73 + int(s.get('hexparse', 0))
    r['exhaustive'] = False
    return r


def run_tlaps(ctx, module):
    """TLAPS proof of an unbounded lemma of the spec; any obligation left unproved is a tool error"""
    import subprocess, re, shutil
    spec = os.path.join(os.path.dirname(os.path.dirname(os.path.abspath(__file__))), 'spec')
    shutil.rmtree(os.path.join(spec, '.tlacache'), ignore_errors=True)
    r = subprocess.run(['timeout', '900', 'tlapm', '--threads', '8', module + '.tla'], cwd=spec, capture_output=True, text=True)
    out = r.stdout + r.stderr
    shutil.rmtree(os.path.join(spec, '.tlacache'), ignore_errors=True)
    m = re.search(r'All (\d+) obligations? proved', out)
    if not m:
        raise ctx['ToolError']('TLAPS did not prove %s: %s' % (module, out[-600:]))
    ctx['log']('TLAPS %s: all %s obligations proved' % (module, m.group(1)))
    return int(m.group(1))


def plan_c20(ctx):
    nobl = run_tlaps(ctx, 'A5OrderProof') if ctx['tier'] == 'thorough' else None
    r = standard(ctx, [dict(module='MC_Order')],
                 rule='sorted u64 columns of every cell of res 1..5 (quick) / 1..7 (thorough); every consecutive same-res pair with all '
                      'ancestors and descendant extremes; one mixed-resolution sorted list of all cells res 1..5/6 and local mixed lists '
                      'around random/boundary-straddling deep cells, streamed through the contiguous-run automaton; random deep pairs. '
                      'distinct_nontrivial = number of ancestor pairs checked',
                 assumptions=['resolution and canonical form of an ID are read by the spec decoder (C05)'])
    r['distinct_nontrivial'] = int(r['summary'].get('pairs', 0))
    if nobl is not None:
        r['extra'] = {'tlaps_module': 'spec/A5OrderProof.tla (PrefixMonotone, SubtreeContiguous: unbounded string lengths)',
                      'tlaps_obligations': nobl, 'tlaps_discharged': nobl}
    return r


def plan_c07(ctx):
    r = standard(ctx, [dict(module='MC_Tree')],
                 rule='cell_to_children for every cell res<=4 (quick) / <=6 (thorough) x targets res..res+3 and default, each child '
                      'checked against the code\'s own cell_to_parent; ancestor and children composition; level partition by sorted '
                      'enumeration; random deep cells to res 29. distinct_nontrivial = children calls with fan-out > 1',
                 assumptions=['fan-out constants 12/5/4 are those of the property statement'])
    r['distinct_nontrivial'] = int(r['summary'].get('children_calls', 0))
    return r


def plan_c09(ctx):
    r = standard(ctx, [dict(module='MC_Uncompact')],
                 rule='lists enumerated by MC_Uncompact (<=3 cells over world/base/quintant/res-2/3 cells x targets -1..5), the '
                      'repository compact fixtures, seeded mixed lists to res 29 with total fan-out <= 4^6 (quick) / 4^8; '
                      'distinct_nontrivial = calls',
                 assumptions=['ancestor relation taken from the code\'s own cell_to_parent (a tree by C07)'])
    r['distinct_nontrivial'] = int(r['summary'].get('uncompact_calls', 0))
    return r


COMPACT_MCS = [dict(module='MC_Compact', cfg='MC_Compact_subsets'), dict(module='MC_Compact', cfg='MC_Compact_antichains'),
               dict(module='MC_Compact', cfg='MC_Compact_faces'), dict(module='MC_Compact', cfg='MC_Compact_lowres'),
               dict(module='MC_Compact', cfg='MC_Compact_deep')]


def plan_c08(ctx):
    r = standard(ctx, COMPACT_MCS,
                 rule='inputs enumerated by MC_Compact (all subsets of an interleaving low-resolution universe, antichains below a quintant, '
                      'per-face modes, overlapping low-res mixes), repository fixtures, seeded antichains by recursive subdivision/deletion '
                      'from any root incl. the world cell up to res 29, overlapping ancestor/descendant mixes; each set is compacted in >=3 '
                      'orders/multiplicities. distinct_nontrivial = input sets',
                 assumptions=['cover equality is decided on cell descriptions by the canonical-form theorem checked in MC_Compact',
                              'IDs decoded by the spec (C05)'])
    r['distinct_nontrivial'] = int(r['summary'].get('compact_sets', 0))
    return r


def plan_c10(ctx):
    # the algorithm of the pinned v0.6.2 tree is kept as a model variant: TLC must still find its
    # documented counterexamples (a spec regression test; independent of /repo)
    docs = [dict(module='MC_Compact', cfg='MC_Compact_v062', expect='violation'),
            dict(module='MC_Compact', cfg='MC_Compact_v062_dup', expect='violation'),
            dict(module='MC_Compact', cfg='MC_Compact_v062_sorted', expect='violation')]
    r = standard(ctx, COMPACT_MCS + docs + [dict(module='MC_Compact', cfg='MC_Compact_live')],
                 rule='non-overlapping inputs enumerated by MC_Compact, fixtures, seeded antichains and low-resolution face mixes; each is '
                      'compacted twice; pairs (A, refinement of A) with equal cover. distinct_nontrivial = compact calls on antichains',
                 assumptions=['IDs decoded by the spec (C05)'])
    r['distinct_nontrivial'] = int(r['summary'].get('compact_calls', 0))
    return r


def plan_c17(ctx):
    r = standard(ctx, [dict(module='MC_Hilbert', cfg='MC_Hilbert_c17', workers=12, coverage=False),
                       dict(module='MC_Hilbert', cfg='MC_Hilbert_c17_n10', workers=14, coverage=False, tier='thorough', timeout=3300)],
                 rule='all 4^n positions x 6 orientations for n<=6 (quick) / n<=8 (thorough): the harness measures the lattice triangle of '
                      'each pentagon centre from the real vertices, sorts by triangle, and TLC checks strictly increasing triangles inside '
                      'TriSet(n), count 4^n and ij_to_s(centre)=s; for n up to 29 boundary / digit-pattern / random positions. '
                      'distinct_nontrivial = positions examined',
                 assumptions=['the lattice basis (face_to_ij) is taken from the library to express measured vertices in lattice units'])
    s = r['summary']
    r['distinct_nontrivial'] = int(s.get('positions_exhaustive', 0)) + int(s.get('positions_deep', 0))
    r['exhaustive'] = False
    return r


def plan_c12(ctx):
    r = standard(ctx, [dict(module='MC_Hilbert', cfg='MC_Hilbert_c12', workers=12, coverage=False)],
                 rule='every parent/child pair of tiles for depth<=4 (quick) / <=6 exhaustively and patterns to depth 28, classified from the '
                      'measured pentagons into configurations; one measured fact (clipped overlap area, cover, centre distance) per '
                      'configuration and parent type; on the sphere every parent of res 0..2 (quick) / 0..4 and sampled parents on every '
                      'face x quintant for res 3..28 with an independent ring oracle. distinct_nontrivial = sphere pairs + planar facts',
                 assumptions=['areas are compared in the face plane: the projection is area preserving (C16, not claimed) so planar overlap '
                              'fractions equal spherical ones; distances are measured on the sphere',
                              'harness oracles: Sutherland-Hodgman clipping, gnomonic ring containment'])
    s = r['summary']
    r['distinct_nontrivial'] = int(s.get('sphere_pairs', 0)) + int(s.get('planar_facts', 0))
    return r


def plan_c14(ctx):
    # two builds of the harness (and of /repo): overflow-checked dev profile and release profile
    rel = ctx['build_harness'](True)
    r = standard(ctx, [dict(module='MC_Total')], gen_kv={'release': rel},
                 rule='one child process per call of the plan enumerated by MC_Total (13 public functions x 50 ID class representatives x 15 '
                      'resolution classes x 9 coordinate classes, fan-out <= 4^8) x concrete fills, in an overflow-checked and a release '
                      'build, under ulimit -v 1.5 GB and an 8 s deadline. distinct_nontrivial = calls whose demanded outcome is err or either',
                 assumptions=['negative edge-subdivision counts for cell_to_boundary are outside the property (C11 states n >= 1)',
                              'compact() of malformed IDs: only crash-freedom and "outputs are inputs or canonical" are demanded'])
    oc = r['summary'].get('outcomes', {})
    r['distinct_nontrivial'] = sum(v for k, v in oc.items() if not k.endswith(':ok'))
    r['level'] = 'model_checking'
    return r


def plan_c13(ctx):
    r = standard(ctx, [dict(module='MC_Cache'), dict(module='MC_Cache', cfg='MC_Cache_bad', expect='violation', tier='thorough')],
                 rule='(1) every interleaved history of MC_Cache (2 threads x 2-3 calls over 5 abstract keys) replayed call-by-call on real '
                      'OS threads with slot bitmaps and instance addresses from the hook; (2) ordered pairs of the 240 memo keys on fresh '
                      'instances (all 57600 in thorough; colliding-slot candidates + random in quick); (3) 700 public calls cold / warm / '
                      'after a random history / on 16 concurrent threads; (4) 16 threads released together in 40 (300) fresh processes. '
                      'distinct_nontrivial = key pairs + history steps + public call contexts',
                 assumptions=['real thread schedules are sampled by the OS, not enumerated',
                              'memo-slot predictions of the A5Cache model are reported as drift, not as violations'])
    s = r['summary']
    r['distinct_nontrivial'] = int(s.get('key_pairs', 0)) + int(s.get('history_steps', 0)) + int(s.get('public_call_contexts', 0))
    return r


def plan_c03(ctx):
    r = standard(ctx, [dict(module='MC_Mesh', workers=12)],
                 rule='every cell of res 0..3 (quick) / 0..5 (thorough, with 4 points per edge up to res 4): corners snapped to vertex ids, '
                      'cells added to the half-edge mesh of A5Mesh (rejected if a directed edge is already present), closure + Euler + total '
                      'area at the end; owner uniqueness probes at res 2..29 around uniform and special points (poles, seams, face '
                      'vertices). distinct_nontrivial = cells meshed + owner probes',
                 assumptions=['vertex snapping tolerance 1e-7 of the cell size', 'gap-freeness is claimed only for the exhaustively meshed resolutions'])
    s = r['summary']
    r['distinct_nontrivial'] = sum(m['cells'] for m in s.get('meshes', [])) + int(s.get('owner_probes', 0))
    return r


def plan_c04(ctx):
    r = standard(ctx, [dict(module='MC_Tree')],
                 rule='ring area of every cell res 0..3 (quick) / 0..5, sampled cells on every face x quintant (first, last, random position) '
                      'for deeper res, cells at poles / face centres / vertices / seams; 64 segments per edge, Lambert equal-area chart at the '
                      'cell centre, closed-form authalic latitude. distinct_nontrivial = cells measured',
                 assumptions=['the area measurement is an instrument reading judged by the spec, not something TLC decides',
                              'tolerance widened above res 20 by the coordinate-noise bound of f64 degrees'])
    r['distinct_nontrivial'] = int(r['summary'].get('cells_measured', 0))
    r['level'] = 'exploration'
    return r


def plan_c11(ctx):
    r = standard(ctx, [dict(module='MC_Lookup'), dict(module='MC_Lon')],
                 rule='ring scenarios enumerated by MC_Lookup (7 resolution classes x 5 location classes x 7 subdivisions x closed/open) '
                      'instantiated with real cells, plus every cell of res 0..2 (3) x all subdivisions. distinct_nontrivial = calls',
                 assumptions=['orientation / containment / pole contact measured by the independent ring oracle of harness/src/geom.rs'])
    r['distinct_nontrivial'] = int(r['summary'].get('boundary_calls', 0))
    r['level'] = 'exploration'
    return r


def plan_c01(ctx):
    r = standard(ctx, [dict(module='MC_Lookup'), dict(module='MC_LookupSteps')],
                 rule='lookup scenarios of MC_Lookup (7 resolution classes x 7 location classes) instantiated with seeded points; points '
                      'hugging every edge and vertex of sampled cells at relative depths 1e-13..0.3 on both sides; the search loop itself is '
                      'model-checked at step grain (MC_LookupSteps) and the step log of a quarter of the lookups (all hard ones) is folded '
                      'through the same transition function by Trace.tla. '
                      'distinct_nontrivial = lookups not answered by the direct estimate (probe or fallback branch)',
                 assumptions=['containment: fine planar measure through the library projection (band 1e-12) AND independent ring oracle '
                              'with measured sagitta allowance; a point is outside if either says so beyond its allowance'])
    s = r['summary']
    b = s.get('branches_exact_direct_probe_fallback', [0, 0, 0, 0])
    r['distinct_nontrivial'] = int(b[2]) + int(b[3])
    r['level'] = 'exploration'
    return r


def plan_c02(ctx):
    r = standard(ctx, [dict(module='MC_Lookup')],
                 rule='centre of every cell res 0..4 (quick) / 0..5, of cells on every face x quintant (first/last/random position) at deeper '
                      'res and of cells at special points; interior points hugging edges/vertices at depths 1e-10..0.5. '
                      'distinct_nontrivial = centres + deep interior points',
                 assumptions=['same oracles as C01'])
    s = r['summary']
    r['distinct_nontrivial'] = int(s.get('centres', 0)) + int(s.get('interior_points', 0))
    r['level'] = 'exploration'
    return r


def plan_c18(ctx):
    r = standard(ctx, [dict(module='MC_Origins')],
                 rule='relabelling of all 12 faces x 5 quintants x 2 directions; 12 face centres and all 66 pairwise angles; nearest-face '
                      'selection for uniform points and points within 1e-9..1e-2 rad of seams/vertices/centres at res 0 and 1; the 120 base '
                      'and 120 reflected spherical triangles of the memo cache as a mesh. distinct_nontrivial = nearest-face points whose '
                      'margin to the runner-up face is below 1e-6 rad + 66 pairs + 60 relabellings',
                 assumptions=['true angular distances are computed by the harness from the 12 recorded centres'])
    s = r['summary']
    r['distinct_nontrivial'] = int(s.get('nearest_points_within_1e-6_of_a_seam', 0)) + 66 + 60
    return r


def plan_c06(ctx):
    r = standard(ctx, [dict(module='MC_Hilbert', cfg='MC_Hilbert_c17', workers=12, coverage=False), dict(module='MC_Origins')],
                 gen_kv={'golden': os.path.join(os.path.dirname(os.path.dirname(os.path.abspath(__file__))), 'golden')},
                 rule='discrete pin: s_to_anchor / tiles / ij_to_s equal to the TLA+ transcription of v0.6.2 for all positions depth<=4 '
                      '(quick) / <=6 and patterns to 29, relabelling tables on 12 faces; continuous pin: frozen golden table generated '
                      'once from the reference release (every cell res<=3, 3 cells per face x quintant for res 4..29: centre + corners; '
                      'deep interior points -> id), replayed. distinct_nontrivial = golden cells + golden lookups + pinned positions',
                 assumptions=['the golden table was generated from commit e2ba7e1 (reference + hooks only) by harness gen GOLDEN',
                              'entries within 2e-5 rad of a pole and lookups not deeply inside in the reference are not pinned'],
                 level='other',
                 explanation='Reference conformance: the specification is the pin for every discrete table (checked by TLC on recorded '
                             'events), a frozen trace of the reference release is the pin for the continuous anchoring (replayed into '
                             'the current code; TLC validates the recorded deviations). This is regression comparison, not model checking.')
    s = r['summary']
    r['distinct_nontrivial'] = int(s.get('golden_cells', 0)) + int(s.get('golden_lookups', 0)) + int(s.get('pinned_positions', 0))
    return r


PLANS = {
    'C18': plan_c18, 'C06': plan_c06,
    'C01': plan_c01, 'C02': plan_c02, 'C03': plan_c03, 'C04': plan_c04, 'C11': plan_c11,
    'C13': plan_c13,
    'C14': plan_c14,
    'C17': plan_c17,
    'C12': plan_c12,
    'C08': plan_c08,
    'C10': plan_c10,
    'C05': plan_c05,
    'C20': plan_c20,
    'C07': plan_c07,
    'C09': plan_c09,
}
