#!/bin/sh
# tv.sh <trace.ndjson> <metadir> : validate one trace shard with TLC against spec/Trace.tla
cd /verif/spec || exit 2
TRACE="$1" JAVA_TOOL_OPTIONS="-Xss1g -Dtlc2.tool.queue.IStateQueue=StateDeque" exec timeout ${TV_TIMEOUT:-1800} \
  java -XX:+UseSerialGC -Xmx3g -cp /opt/veriftools/tla/tla2tools.jar:/opt/veriftools/tla/CommunityModules-deps.jar tlc2.TLC \
  -workers 1 -metadir "$2" -cleanup -noGenerateSpecTE -config Trace.cfg Trace.tla
